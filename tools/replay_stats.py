"""tools/replay_stats.py Cxx : summarise the violation details stored under replays/Cxx (development aid)."""
import json, glob, sys, collections
pid = sys.argv[1]
rows = []
for f in glob.glob('/verif/replays/%s/*.json' % pid):
    rp = json.load(open(f))
    for v in rp['violations']:
        rows.append((rp['case'], v))
print(len(rows), 'violations')
keys = sys.argv[2:]
cnt = collections.Counter()
for c, v in rows:
    d = v['detail']
    cnt[(v['clause'][:40],) + tuple(str(d.get(k, c.get(k)))[:12] if not isinstance(d.get(k, c.get(k)), float) else '%.2g' % d.get(k) for k in keys)] += 1
for k, n in cnt.most_common(60):
    print(n, k)
