#!/venv/bin/python
"""tools/coverage_union.py : which function-body lines of the anchor modules are reached by NO check (from evidence/*.json).

Each check's evidence lists, per watched file, the functions it never entered and the unreached lines of the functions it
entered.  A line is globally unreached when every check that watches the file leaves it unreached."""
import glob, json, os, sys
sys.path.insert(0, os.path.dirname(os.path.dirname(os.path.abspath(__file__))))
from vt import reach
REPO = os.environ.get("VERIF_REPO", "/repo")


def expand(r):
    out = set()
    for part in r.split(","):
        if "-" in part:
            a, b = part.split("-")
            out.update(range(int(a), int(b) + 1))
        elif part:
            out.add(int(part))
    return out


per_file = {}
for f in sorted(glob.glob(os.path.join(os.path.dirname(__file__), "..", "evidence", "C*.json"))):
    ev = json.load(open(f))
    for fk, rep in ev["coverage"].get("line_coverage_of_anchor_modules", {}).items():
        funcs = reach.function_lines(os.path.join(REPO, fk))
        miss = set()
        names = {"%s@%d" % k: v for k, v in funcs.items()}
        for n in rep["functions_never_entered"]:
            miss |= names.get(n, set())
        for item in rep["functions_partly_reached (unreached lines)"]:
            miss |= expand(item.split(": ", 1)[1])
        d = per_file.setdefault(fk, {"checks": [], "miss": None, "funcs": funcs})
        d["checks"].append(ev["property_id"])
        d["miss"] = miss if d["miss"] is None else (d["miss"] & miss)
for fk, d in sorted(per_file.items()):
    total = sum(len(v) for v in d["funcs"].values())
    print("%s  watched by %s: %d of %d function-body lines reached by no check" % (fk, ",".join(d["checks"]), len(d["miss"]), total))
    for (name, first), ls in sorted(d["funcs"].items(), key=lambda kv: kv[0][1]):
        m = sorted(ls & d["miss"])
        if m:
            print("   %-40s %s%s" % ("%s@%d" % (name, first), "NEVER ENTERED " if len(m) == len(ls) else "", ",".join(map(str, m[:30]))))
