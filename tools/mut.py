#!/venv/bin/python
"""tools/mut.py <Cxx> <file-relative-to-pyrex> <old> <new> [--tests] : copy /repo to a scratch dir, apply one textual
mutation, run the quick check against the copy (VERIF_REPO), report whether it was caught, delete the copy.
Development aid for the 'Breaks' lists of DESIGN.md; never touches /repo."""
import os, shutil, subprocess, sys, tempfile
pid, rel, old, new = sys.argv[1:5]
run_tests = "--tests" in sys.argv
d = tempfile.mkdtemp(prefix="vt_mut_")
try:
    shutil.copytree("/repo/pyrex", d + "/pyrex")
    shutil.copytree("/repo/tests", d + "/tests", symlinks=True)
    p = os.path.join(d, "pyrex", rel)
    s = open(p).read()
    if s.count(old) < 1:
        print("PATTERN NOT FOUND"); sys.exit(9)
    open(p, "w").write(s.replace(old, new, 1))
    env = dict(os.environ, VERIF_REPO=d)
    for c in pid.split(","):
        r = subprocess.run(["/verif/check", c, "--tier", "quick"], env=env, capture_output=True, text=True)
        lines = [l for l in r.stdout.splitlines() if l.startswith(("VIOLATION", "INCONCLUSIVE")) or "violating cases" in l]
        print(f"{c}: exit={r.returncode}", "CAUGHT" if r.returncode == 1 else ("INCONCLUSIVE" if r.returncode == 2 else "missed"), lines[-1] if lines else "")
    if run_tests:
        r = subprocess.run(["/venv/bin/python", "-m", "pytest", "-q", "-p", "no:cacheprovider", "-x", "--timeout=900"], cwd=d, capture_output=True, text=True)
        print("tests:", r.stdout.strip().splitlines()[-1])
finally:
    shutil.rmtree(d, ignore_errors=True)
