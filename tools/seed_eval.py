#!/venv/bin/python
"""tools/seed_eval.py <Cxx> <N> [--checks C01,C02] [--thorough] [--stage confirm|check|both] : confirm a sub-agent's breaking change and run the checks on it.

1. scratch worktree of /repo (outside /repo and /verif): with the patch the repo suite must pass and the demo must FAIL,
   without it the demo must PASS; the worktree is removed again.
2. the patch is applied to /repo (git apply), the quick check(s) run, and the patch is undone (git checkout -- .) straight away.
3. confirmed changes are kept as /verif/seeded/<Cxx>-<N>/{patch.diff, demo.py, meta.json}.
"""
import json, os, shutil, subprocess, sys, tempfile
pid, n = sys.argv[1], sys.argv[2]
checks = pid
if "--checks" in sys.argv:
    checks = sys.argv[sys.argv.index("--checks") + 1]
kept = "/verif/seeded/%s-%s" % (pid, n)
if os.path.exists(kept + "/patch.diff"):          # already kept: re-evaluate from /verif/seeded
    diff, demo, txt = kept + "/patch.diff", kept + "/demo.py", None
    _m = json.load(open(kept + "/meta.json")) if os.path.exists(kept + "/meta.json") else {}
    meta = {"property": pid, "change": int(n), "description": _m.get("description", "")}
else:                                             # fresh from a sub-agent's scratch worktree
    src = "/tmp/seed/%s/out" % pid
    diff, demo, txt = "%s/change%s.diff" % (src, n), "%s/demo%s.py" % (src, n), "%s/change%s.txt" % (src, n)
    meta = {"property": pid, "change": int(n), "description": open(txt).read().strip() if os.path.exists(txt) else ""}
assert os.path.exists(diff) and os.path.exists(demo), (diff, demo)
run = lambda cmd, **kw: subprocess.run(cmd, capture_output=True, text=True, **kw)
stage = sys.argv[sys.argv.index("--stage") + 1] if "--stage" in sys.argv else "both"
_keep = {}
if os.path.exists(kept + "/meta.json"):
    _km = json.load(open(kept + "/meta.json"))
    _keep = {k: _km[k] for k in ("breaks_property", "needs_to_manifest") if k in _km}
    if stage == "check":          # stage 1 (confirmation in a scratch worktree) was done before: re-use its record
        meta = {k: v for k, v in _km.items() if k != "checks"}
wt = tempfile.mkdtemp(prefix="vt_seedeval_")
os.rmdir(wt)
try:
  if stage != "check":
        assert run(["git", "-C", "/repo", "worktree", "add", "-q", "--detach", wt, "HEAD"]).returncode == 0
        env = dict(os.environ, PYTHONPATH=wt)
        r0 = run(["/venv/bin/python", "-W", "ignore", demo], cwd=wt, env=env, timeout=1800)
        meta["demo_passes_without_change"] = r0.returncode == 0
        ap = run(["git", "-C", wt, "apply", diff])
        meta["patch_applies"] = ap.returncode == 0
        if not meta["patch_applies"]:
            meta["apply_error"] = ap.stderr[-300:]
        else:
            t = run(["/venv/bin/python", "-m", "pytest", "-q", "-p", "no:cacheprovider", "--timeout=900", "tests"], cwd=wt, timeout=3600)
            meta["suite_with_change"] = t.stdout.strip().splitlines()[-1] if t.stdout.strip() else t.stderr[-200:]
            meta["suite_passes_with_change"] = t.returncode == 0
            r1 = run(["/venv/bin/python", "-W", "ignore", demo], cwd=wt, env=env, timeout=1800)
            meta["demo_fails_with_change"] = r1.returncode != 0
            meta["demo_failure"] = (r1.stderr or r1.stdout).strip().splitlines()[-1][:300] if r1.returncode != 0 and (r1.stderr or r1.stdout).strip() else ""
finally:
    run(["git", "-C", "/repo", "worktree", "remove", "--force", wt])
    shutil.rmtree(wt, ignore_errors=True)
confirmed = meta.get("patch_applies") and meta.get("suite_passes_with_change") and meta.get("demo_fails_with_change") and meta.get("demo_passes_without_change")
meta["confirmed"] = bool(confirmed)
meta.setdefault("breaks_property", _keep.get("breaks_property", pid))
meta.setdefault("needs_to_manifest", _keep.get("needs_to_manifest", meta.get("description", "")))
meta["checks"] = {}
_prev = "/verif/seeded/%s-%s/meta.json" % (pid, n)
if os.path.exists(_prev):
    try:
        meta["checks"] = json.load(open(_prev)).get("checks", {})     # keep results of checks that are not re-run now
    except Exception:
        pass
if confirmed and stage == "confirm":
    out = "/verif/seeded/%s-%s" % (pid, n)
    os.makedirs(out, exist_ok=True)
    if os.path.abspath(diff) != os.path.abspath(out + "/patch.diff"):
        shutil.copy(diff, out + "/patch.diff")
        shutil.copy(demo, out + "/demo.py")
    json.dump(meta, open(out + "/meta.json", "w"), indent=1)
elif confirmed:
    st = run(["git", "-C", "/repo", "status", "--porcelain"]).stdout.strip()
    assert st == "", "repo not clean: " + st
    try:
        assert run(["git", "-C", "/repo", "apply", diff]).returncode == 0
        for c in checks.split(","):
            for tier in (["quick", "thorough"] if "--thorough" in sys.argv else ["quick"]):
                r = run(["/verif/check", c, "--tier", tier], cwd="/verif", timeout=7200)
                lines = [l for l in r.stdout.splitlines() if "violating cases" in l or l.startswith("INCONCLUSIVE")]
                _old = meta["checks"].get("%s:%s" % (c, tier))
                _hist = (_old.get("previous_verdicts", []) + [_old["verdict"]]) if _old else []
                meta["checks"]["%s:%s" % (c, tier)] = {"previous_verdicts": _hist, "exit": r.returncode, "verdict": ({0: "missed", 1: "caught", 2: "inconclusive"}.get(r.returncode, "?") if (r.returncode != 1 or "VIOLATION property=" in r.stdout) else "error: exit 1 without a VIOLATION line"), "summary": (lines[-1].strip() if lines else "")[:400]}
                if r.returncode == 1:
                    break
    finally:
        run(["git", "-C", "/repo", "checkout", "--", "."])
        shutil.rmtree("/verif/replays/%s" % pid, ignore_errors=True)
    out = "/verif/seeded/%s-%s" % (pid, n)
    os.makedirs(out, exist_ok=True)
    if os.path.abspath(diff) != os.path.abspath(out + "/patch.diff"):
        shutil.copy(diff, out + "/patch.diff")
        shutil.copy(demo, out + "/demo.py")
    meta["what_i_ran"] = ["scratch worktree: git apply patch.diff; pytest tests; demo.py (fails); without patch demo.py passes",
                          "git -C /repo apply patch.diff; ./check <id> --tier quick; git -C /repo checkout -- ."]
    json.dump(meta, open(out + "/meta.json", "w"), indent=1)
print(json.dumps(meta, indent=1))
