#!/venv/bin/python
"""Regenerate DESIGN.md section 8.6 (table of the seeded changes and which checks catch them) from seeded/*/meta.json."""
import glob, json, os, re
rows = []
for f in sorted(glob.glob("/verif/seeded/*/meta.json"), key=lambda p: (os.path.basename(os.path.dirname(p)).split("-")[0], int(os.path.basename(os.path.dirname(p)).split("-")[1]))):
    m = json.load(open(f))
    sid = os.path.basename(os.path.dirname(f))
    desc = " ".join(m.get("description", "").split())
    first = re.split(r"(?<=[.!?])\s", desc)[0][:230]
    cells = []
    for k, val in m.get("checks", {}).items():
        hist = val.get("previous_verdicts", [])
        was_missed = "missed" in hist and val["verdict"] == "caught"
        clause = ""
        mm = re.search(r"clauses: \{(.*)\}", val.get("summary", ""))
        if mm:
            clause = mm.group(1).split("':")[0].strip("'\" ")[:70]
        cells.append("%s %s%s%s" % (k.split(":")[0], val["verdict"], " (missed before the check was widened)" if was_missed else "", (": " + clause) if clause and val["verdict"] == "caught" else ""))
    rows.append("| %s | %s | %s |" % (sid, first.replace("|", "/"), "; ".join(cells)))
caught = sum(1 for r in rows if " caught" in r.split("|")[3] )
text = ["### 8.6 Independent breaking changes (sub-agents, `seeded/`)", "",
        "Each change was produced by a fresh sub-agent that was given only the property text and a scratch worktree; each was confirmed",
        "here (with the patch the repo suite passes and the agent's demo fails, without it the demo passes) before being kept as",
        "`seeded/<id>/{patch.diff, demo.py, meta.json}`.  Verdicts are from `git -C /repo apply`, `./check <id> --tier quick`, `git checkout`.",
        "'missed before the check was widened' marks the changes the first version of a check did not see; the widening is always a new",
        "input class or relation (listed in 8.7), never a special case for the change.", "",
        "| id | change (first sentence of the author's description) | verdicts |", "|----|----|----|"] + rows + ["", "%d of %d kept changes are caught by at least one check." % (caught, len(rows)), ""]
p = "/verif/DESIGN.md"
s = open(p).read()
block = "\n".join(text)
if "### 8.6 Independent breaking changes" in s:
    i = s.index("### 8.6 Independent breaking changes")
    j = s.index("### 8.7", i) if "### 8.7" in s[i:] else len(s)
    s = s[:i] + block + "\n" + s[j:]
else:
    s = s.rstrip("\n") + "\n\n" + block + "\n"
open(p, "w").write(s)
print(len(rows), "rows,", caught, "caught")
