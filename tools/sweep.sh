#!/bin/bash
# tools/sweep.sh <tier> <seed> [<seed> ...] : run every check for the given seeds, one summary line per run (for vp run sweeps)
tier="$1"; shift
for s in "$@"; do
  for c in C01 C02 C03 C04 C05 C06 C07 C08 C09 C10 C11 C12 C13 C14 C15 C16 C17 C18 C19 C20; do
    out=$(./check $c --tier $tier --seed $s 2>&1); rc=$?
    echo "$c tier=$tier seed=$s exit=$rc $(echo "$out" | head -1 | sed 's/.*cases, //')"
    if [ $rc -ne 0 ]; then echo "$out" | grep -E "violated clause|INCONCLUSIVE|violating cases" | head -6 | cut -c1-600; fi
  done
done
