#!/venv/bin/python
"""tools/mutscore.py <Cxx> [--max N] [--par P] [--seed S] [--files a.py,b.py] [--only-files] [--out name] : systematic single-site mutants of the anchor functions.

For the check's anchor functions (ANCHORS of vt/checks/cNN.py, plus every function of --files) one syntactic mutation at a time
is applied in a scratch copy of /repo (outside /repo and /verif, removed afterwards):

    arithmetic  + <-> -,  * <-> /          comparison  < <-> <=,  > <-> >=,  == <-> !=
    boolean     and <-> or, drop `not`     constants   0 <-> 1, c -> c + 1 (small ints), float c -> 1.1 c
    calls       np.abs(x) -> x,  np.sin <-> np.cos,  min <-> max       unary  -x -> x
    statements  `x += e` -> `x -= e`,  return e -> return None (only for non-None returns is NOT done: too blunt)

Each mutant is kept only if the package still imports and the repository's own tests for that module still pass (a change the
tests do not see); the property's quick check then runs on it (VERIF_REPO=<scratch>, VERIF_OUT=<scratch>).  Output: one JSON
line per mutant in mutants/<Cxx>.jsonl and a summary: killed by the repo tests / caught by the check / missed / inconclusive.
Missed mutants are candidates for (a) equivalent mutants, (b) code outside the property, (c) a gap in the workload.
"""
import ast
import copy
import importlib
import json
import os
import random
import shutil
import subprocess
import sys
import tempfile
from concurrent.futures import ThreadPoolExecutor

HERE = os.path.dirname(os.path.dirname(os.path.abspath(__file__)))
sys.path.insert(0, HERE)
REPO = "/repo"
TESTS_FOR = {"ray_tracing.py": ["tests/test_ray_tracing.py", "tests/test_kernel.py"], "signals.py": ["tests/test_signals.py", "tests/test_askaryan.py", "tests/test_antenna.py"],
             "antenna.py": ["tests/test_antenna.py", "tests/test_detector.py"], "detector.py": ["tests/test_detector.py"], "kernel.py": ["tests/test_kernel.py"],
             "io.py": ["tests/test_io.py", "tests/test_kernel.py"], "generation.py": ["tests/test_generation.py"], "particle.py": ["tests/test_particle.py", "tests/test_generation.py"],
             "earth_model.py": ["tests/test_earth_model.py", "tests/test_generation.py"], "ice_model.py": ["tests/test_ice_model.py", "tests/test_ray_tracing.py"],
             "askaryan.py": ["tests/test_askaryan.py"], "internal_functions.py": ["tests/test_internal_functions.py", "tests/test_signals.py", "tests/test_detector.py"]}


class Sites(ast.NodeVisitor):
    """Enumerate mutation sites inside the selected functions."""

    def __init__(self, ranges):
        self.ranges, self.sites = ranges, []

    def inside(self, node):
        ln = getattr(node, "lineno", None)
        return ln is not None and any(a <= ln <= b for a, b in self.ranges)

    def generic_visit(self, node):
        if self.inside(node):
            for kind in mutations_of(node):
                self.sites.append((node.lineno, getattr(node, "col_offset", 0), type(node).__name__, kind))
        super().generic_visit(node)


def mutations_of(node):
    out = []
    if isinstance(node, ast.BinOp):
        if isinstance(node.op, (ast.Add, ast.Sub, ast.Mult, ast.Div)):
            out.append("arith")
    elif isinstance(node, ast.Compare) and len(node.ops) == 1 and isinstance(node.ops[0], (ast.Lt, ast.LtE, ast.Gt, ast.GtE, ast.Eq, ast.NotEq)):
        out.append("cmp")
    elif isinstance(node, ast.BoolOp):
        out.append("bool")
    elif isinstance(node, ast.UnaryOp) and isinstance(node.op, (ast.Not, ast.USub)):
        out.append("unary")
    elif isinstance(node, ast.Constant) and isinstance(node.value, (int, float)) and not isinstance(node.value, bool):
        out.append("const")
    elif isinstance(node, ast.Call):
        f = node.func
        name = f.attr if isinstance(f, ast.Attribute) else (f.id if isinstance(f, ast.Name) else None)
        if name in ("abs", "sin", "cos", "min", "max", "minimum", "maximum", "floor", "ceil") and node.args:
            out.append("call")
    elif isinstance(node, ast.AugAssign) and isinstance(node.op, (ast.Add, ast.Sub)):
        out.append("aug")
    return out


class Apply(ast.NodeTransformer):
    def __init__(self, site):
        self.site, self.done, self.desc = site, False, ""

    def visit(self, node):
        if not self.done and getattr(node, "lineno", None) == self.site[0] and getattr(node, "col_offset", None) == self.site[1] and type(node).__name__ == self.site[2]:
            new = self.mutate(node, self.site[3])
            if new is not None:
                self.done = True
                return ast.copy_location(new, node)
        return super().visit(node)

    def mutate(self, node, kind):
        n = copy.deepcopy(node)
        if kind == "arith":
            swap = {ast.Add: ast.Sub, ast.Sub: ast.Add, ast.Mult: ast.Div, ast.Div: ast.Mult}
            self.desc = "%s -> %s" % (type(n.op).__name__, swap[type(n.op)].__name__)
            n.op = swap[type(n.op)]()
        elif kind == "cmp":
            swap = {ast.Lt: ast.LtE, ast.LtE: ast.Lt, ast.Gt: ast.GtE, ast.GtE: ast.Gt, ast.Eq: ast.NotEq, ast.NotEq: ast.Eq}
            self.desc = "%s -> %s" % (type(n.ops[0]).__name__, swap[type(n.ops[0])].__name__)
            n.ops = [swap[type(n.ops[0])]()]
        elif kind == "bool":
            self.desc = "and <-> or"
            n.op = ast.Or() if isinstance(n.op, ast.And) else ast.And()
        elif kind == "unary":
            self.desc = "drop " + type(n.op).__name__
            return n.operand
        elif kind == "const":
            v = n.value
            nv = (1 if v == 0 else (0 if v == 1 else (v + 1 if isinstance(v, int) and abs(v) < 100 else v * 1.1)))
            self.desc = "%r -> %r" % (v, nv)
            n.value = nv
        elif kind == "call":
            f = n.func
            name = f.attr if isinstance(f, ast.Attribute) else f.id
            if name == "abs":
                self.desc = "abs(x) -> x"
                return n.args[0]
            swap = {"sin": "cos", "cos": "sin", "min": "max", "max": "min", "minimum": "maximum", "maximum": "minimum", "floor": "ceil", "ceil": "floor"}[name]
            self.desc = "%s -> %s" % (name, swap)
            if isinstance(f, ast.Attribute):
                f.attr = swap
            else:
                f.id = swap
        elif kind == "aug":
            self.desc = "augmented + <-> -"
            n.op = ast.Sub() if isinstance(n.op, ast.Add) else ast.Add()
        return n


def anchor_ranges(pid, extra_files):
    mod = importlib.import_module("vt.checks." + pid.lower())
    per_file = {}
    for anc in ([] if "--only-files" in sys.argv else getattr(mod, "ANCHORS", [])):
        modname, qual = anc.split(":")
        path = os.path.join(REPO, modname.replace(".", "/") + ".py")
        if not os.path.exists(path):
            continue
        tree = ast.parse(open(path).read())
        parts = qual.split(".")
        nodes = [tree]
        for p in parts:
            nxt = []
            for n in nodes:
                for c in ast.iter_child_nodes(n):
                    if isinstance(c, (ast.ClassDef, ast.FunctionDef)) and c.name == p:
                        nxt.append(c)
            nodes = nxt
        for n in nodes:
            if isinstance(n, ast.FunctionDef):
                body_start = n.body[1].lineno if (isinstance(n.body[0], ast.Expr) and isinstance(getattr(n.body[0], "value", None), ast.Constant) and len(n.body) > 1) else n.body[0].lineno
                per_file.setdefault(path, []).append((body_start, n.end_lineno))
    for f in extra_files:
        path = os.path.join(REPO, f)
        tree = ast.parse(open(path).read())
        for n in ast.walk(tree):
            if isinstance(n, ast.FunctionDef):
                body_start = n.body[1].lineno if (isinstance(n.body[0], ast.Expr) and isinstance(getattr(n.body[0], "value", None), ast.Constant) and len(n.body) > 1) else n.body[0].lineno
                per_file.setdefault(path, []).append((body_start, n.end_lineno))
    return per_file


def run_mutant(job):
    pid, path, site, k, base, seed = job
    rel = os.path.relpath(path, REPO)
    src = open(path).read()
    tree = ast.parse(src)
    ap = Apply(site)
    new_tree = ap.visit(tree)
    if not ap.done:
        return None
    ast.fix_missing_locations(new_tree)
    try:
        new_src = ast.unparse(new_tree)
    except Exception:
        return None
    d = tempfile.mkdtemp(prefix="vt_mut_%s_" % pid, dir=base)
    rec = {"property": pid, "file": rel, "line": site[0], "col": site[1], "node": site[2], "mutation": ap.desc, "source_line": src.splitlines()[site[0] - 1].strip()[:160]}
    try:
        shutil.copytree(os.path.join(REPO, "pyrex"), os.path.join(d, "pyrex"), ignore=shutil.ignore_patterns("__pycache__"))
        # tests/pyrex is a symbolic link to ../pyrex: keep it a link, or the tests would import an unmutated copy of the package
        shutil.copytree(os.path.join(REPO, "tests"), os.path.join(d, "tests"), ignore=shutil.ignore_patterns("__pycache__"), symlinks=True)
        for extra in ("setup.py", "setup.cfg", "pyproject.toml"):
            if os.path.exists(os.path.join(REPO, extra)):
                shutil.copy(os.path.join(REPO, extra), d)
        with open(os.path.join(d, rel), "w") as f:
            f.write(new_src)
        env = dict(os.environ, PYTHONPATH=d, PYTHONDONTWRITEBYTECODE="1", OMP_NUM_THREADS="1", OPENBLAS_NUM_THREADS="1")
        r = subprocess.run(["/venv/bin/python", "-W", "ignore", "-c", "import pyrex"], cwd=d, env=env, capture_output=True, text=True, timeout=120)
        if r.returncode != 0:
            rec["verdict"] = "does not import"
            return rec
        tests = [t for t in TESTS_FOR.get(os.path.basename(rel), ["tests"]) if os.path.exists(os.path.join(d, t))]
        try:
            t = subprocess.run(["/venv/bin/python", "-W", "ignore", "-m", "pytest", "-q", "-x", "-p", "no:cacheprovider", "--timeout=300"] + tests, cwd=d, env=env, capture_output=True, text=True, timeout=900)
            passed = t.returncode == 0
        except subprocess.TimeoutExpired:
            passed = False
        if not passed:
            rec["verdict"] = "killed by the repository tests"
            return rec
        env2 = dict(os.environ, VERIF_REPO=d, VERIF_OUT=d, VERIF_JOBS="2")
        try:
            c = subprocess.run([os.path.join(HERE, "check"), pid, "--tier", "quick", "--seed", str(seed)], cwd=HERE, env=env2, capture_output=True, text=True, timeout=1800)
            lines = [l for l in c.stdout.splitlines() if "violating cases" in l or l.startswith("INCONCLUSIVE")]
            rec["verdict"] = {0: "missed", 1: "caught", 2: "inconclusive"}.get(c.returncode, "exit %d" % c.returncode)
            if c.returncode == 1 and "VIOLATION property=" not in c.stdout:
                rec["verdict"] = "error: exit 1 without a VIOLATION line"
            rec["summary"] = (lines[-1].strip() if lines else "")[:300]
        except subprocess.TimeoutExpired:
            rec["verdict"] = "inconclusive"
            rec["summary"] = "check timed out"
        return rec
    finally:
        shutil.rmtree(d, ignore_errors=True)


def main():
    pid = sys.argv[1].upper()
    arg = lambda name, default: (sys.argv[sys.argv.index(name) + 1] if name in sys.argv else default)
    nmax, par, seed = int(arg("--max", 60)), int(arg("--par", 6)), int(arg("--seed", 0))
    extra = [f for f in arg("--files", "").split(",") if f]
    per_file = anchor_ranges(pid, extra)
    sites = []
    for path, ranges in sorted(per_file.items()):
        sv = Sites(ranges)
        sv.visit(ast.parse(open(path).read()))
        sites += [(path, s) for s in sorted(set(sv.sites))]
    rnd = random.Random(1000 + seed)
    rnd.shuffle(sites)
    sites = sites[:nmax]
    base = tempfile.mkdtemp(prefix="vt_mutscore_")
    out_dir = os.path.join(HERE, "mutants")
    os.makedirs(out_dir, exist_ok=True)
    out_path = os.path.join(out_dir, arg("--out", pid) + ".jsonl")
    recs = []
    try:
        with ThreadPoolExecutor(max_workers=par) as ex:
            for rec in ex.map(run_mutant, [(pid, path, s, k, base, seed) for k, (path, s) in enumerate(sites)]):
                if rec is not None:
                    recs.append(rec)
    finally:
        shutil.rmtree(base, ignore_errors=True)
    with open(out_path, "w") as f:
        for r in recs:
            f.write(json.dumps(r) + "\n")
    tally = {}
    for r in recs:
        tally[r["verdict"]] = tally.get(r["verdict"], 0) + 1
    print(pid, "mutants:", len(recs), tally)
    for r in recs:
        if r["verdict"] in ("missed", "inconclusive"):
            print("  %s %s:%d  %s   | %s" % (r["verdict"].upper(), r["file"], r["line"], r["mutation"], r["source_line"][:110]))


if __name__ == "__main__":
    main()
