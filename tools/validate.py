"""python3-vt tools/validate.py : validate MANIFEST.json and every evidence file against the schemas."""
import json, glob, jsonschema, sys
ok = True
jsonschema.validate(json.load(open('/verif/MANIFEST.json')), json.load(open('/root/.vp/MANIFEST.schema.json')))
es = json.load(open('/root/.vp/EVIDENCE.schema.json'))
for f in sorted(glob.glob('/verif/evidence/*.json')):
    try:
        jsonschema.validate(json.load(open(f)), es)
    except Exception as e:
        ok = False; print("INVALID", f, str(e)[:300])
print("valid" if ok else "INVALID")
sys.exit(0 if ok else 1)
