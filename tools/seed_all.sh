#!/bin/bash
# re-run every kept seeded change against its property's quick check (and extra checks given in seeded/<id>/extra_checks);
# "tools/seed_all.sh full" also repeats the confirmation in a scratch worktree (suite + demo), otherwise the recorded one is kept
cd /verif
stage="--stage check"; [ "$1" = "full" ] && stage=""
for d in seeded/C*-*; do
  id=$(basename $d); p=${id%-*}; n=${id#*-}
  extra=""; [ -f $d/extra_checks ] && extra=",$(cat $d/extra_checks)"
  tools/seed_eval.py $p $n --checks $p$extra $stage 2>&1 | /venv/bin/python -c "
import sys,json
m=json.load(sys.stdin); print(m['property'],m['change'],'confirmed',m['confirmed'],{k:v['verdict'] for k,v in m['checks'].items()})"
done
