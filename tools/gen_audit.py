"""tools/gen_audit.py : call every check's case generator for quick seeds 0..299 and thorough seeds 0..11 (no pyrex code runs): a generator that raises for some seed would make the check exit non-zero on the unchanged tree."""
import sys, importlib, logging, warnings, traceback
sys.path[:0]=['/verif','/repo','/verif/.deps']
logging.disable(logging.CRITICAL); warnings.simplefilter('ignore')
bad=0
for i in range(1,21):
    mod=importlib.import_module('vt.checks.c%02d'%i)
    for tier,seeds in (('quick',range(0,300)),('thorough',range(0,12))):
        if i==20 and tier=='thorough': seeds=range(0,2)
        for sd in seeds:
            try:
                c=mod.gen_cases(tier,sd)
                assert len(c)>0
            except Exception as e:
                bad+=1; print('C%02d'%i,tier,sd,type(e).__name__,str(e)[:100]); break
print('audit done, failures:',bad)
