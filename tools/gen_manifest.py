#!/venv/bin/python
"""Regenerate MANIFEST.json from the check modules that exist (vt/checks/cNN.py)."""
import importlib, json, os, sys
HERE = os.path.dirname(os.path.dirname(os.path.abspath(__file__)))
sys.path.insert(0, HERE)
props = [json.loads(l) for l in open(os.path.join(HERE, "properties.jsonl"))]
checks, na = [], []
for p in props:
    pid = p["id"]
    path = os.path.join(HERE, "vt", "checks", pid.lower() + ".py")
    if not os.path.exists(path):
        na.append({"property_id": pid, "reason": "check not built yet (runtime-monitoring design in DESIGN.md section 4 %s)" % pid})
        continue
    mod = importlib.import_module("vt.checks." + pid.lower())
    checks.append({
        "property_id": pid,
        "quick_cmd": "./check %s --tier quick" % pid,
        "thorough_cmd": "./check %s --tier thorough" % pid,
        "evidence_file": "/verif/evidence/%s.json" % pid,
        "replay_cmd_template": "./check %s --replay {path}" % pid,
        "engine": "vt",
        "level_claimed": {"category": "exploration",
                          "text": getattr(mod, "LEVEL_TEXT", "The real pyrex functions are executed on seeded, class-structured hostile workloads while a monitor records the calls at the public boundary and an independent oracle decides every record; the claim is 'held on the K executions of these input classes', with reach counters proving the anchored code was entered."),
                          "design_ref": "DESIGN.md section 4, " + pid},
        "level_note": getattr(mod, "LEVEL_NOTE", "; ".join(getattr(mod, "ASSUMPTIONS", [])) or "installed numpy/scipy/h5py are trusted"),
        "technique": getattr(mod, "TECHNIQUE", "runtime monitoring: recorded executions of the real code + independent oracle"),
    })
man = {
    "version": 1,
    "setup_cmd": "/venv/bin/python -m pip install --quiet --no-index --find-links /opt/veriftools/wheels --target /verif/.deps icontract",
    "hooks": {"guard": "PYREX_VERIF", "enable": "none needed: every observation point is a public method or attribute wrapped from the harness (PYTHONPATH=/repo imports the working tree); the guard name is reserved and unused",
              "baseline_off_cmd": "cd /repo && /venv/bin/python -m pytest -ra -q -p no:cacheprovider --timeout=900 --continue-on-collection-errors",
              "source_commits": [], "add_only": True},
    "engines": [{"name": "vt", "path": "/verif/vt/engine.py", "serves_properties": [c["property_id"] for c in checks],
                 "kind_free_text": "runtime monitor runner: seeded workload generation, sharded worker subprocesses running the real pyrex code, sys.monitoring reach counters, icontract contracts, oracles, known-findings classification, evidence and replay files"}],
    "checks": checks,
    "not_applicable": na,
    "notes": "Exit 0 held / 1 VIOLATION / 2 INCONCLUSIVE. known_findings.json lists open findings (KNOWN-FINDING lines) and fixed ones (suppress nothing). See DESIGN.md.",
}
json.dump(man, open(os.path.join(HERE, "MANIFEST.json"), "w"), indent=1)
print("checks:", [c["property_id"] for c in checks], "not_applicable:", len(na))
