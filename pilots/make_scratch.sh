#!/bin/bash
# Build /tmp/scratch/fx: a copy of /repo's working tree with the *candidate* repairs of DESIGN.md §5 applied.
# Design-phase helper only; never touches /repo or /verif; delete /tmp/scratch when done.
set -e
rm -rf /tmp/scratch/fx && mkdir -p /tmp/scratch/fx /tmp/scratch/exp && cd /tmp/scratch/fx
cp -r /repo/pyrex /repo/tests . && rm -f tests/pyrex && ln -s ../pyrex tests/pyrex
sed -i 's/np\.float_/np.float64/g; s/np\.complex_/np.complex128/g; s/np\.trapz/np.trapezoid/g' pyrex/*.py pyrex/custom/*/*.py
sed -i 's/^from pkg_resources import parse_version/from packaging.version import parse as parse_version/' pyrex/io.py
sed -i 's/collections\.Iterable/collections.abc.Iterable/g; s/^import collections$/import collections.abc/' pyrex/custom/layered_ice/ice_model.py
/venv/bin/python - <<'PY'
def sub(path, old, new):
    s=open(path).read()
    assert s.count(old)==1, (path, s.count(old), old[:60])
    open(path,'w').write(s.replace(old,new))
sub('pyrex/signals.py', "        new_signal = self.copy()\n        new_signal.times = new_times\n", "        new_signal = self.copy()\n        new_signal.times = np.array(new_times)\n")
sub('pyrex/signals.py', "        if leading is not None:\n            if leading<0:", "        self._clear_cache()\n        if leading is not None:\n            if leading<0:")
sub('pyrex/askaryan.py', "            super().__init__(times, np.zeros(len(times)),\n                             value_type=self.Type.field)", "            super().__init__(times, lambda ts: np.zeros(len(ts)),\n                             value_type=self.Type.field)")
sub('pyrex/askaryan.py', "e_omega *= np.exp(-0.5*((viewing_angle-theta_c)*ratio", "e_omega *= np.exp(-0.5*((theta-theta_c)*ratio")
sub('pyrex/ray_tracing.py', "            points[1:, 0] = rs * np.cos(self.phi)\n            points[1:, 1] = rs * np.sin(self.phi)\n            for i in range(self._reflections):", "            points[1:, 0] = self.from_point[0] + rs * np.cos(self.phi)\n            points[1:, 1] = self.from_point[1] + rs * np.sin(self.phi)\n            for i in range(self._reflections):")
s=open('pyrex/ray_tracing.py').read()
i=s.index("class UniformRayTracePath"); pat="    def propagate(self, signal=None, polarization=None):"; j=s.index(pat, i)
s=s[:j]+"    def propagate(self, signal=None, polarization=None,\n                  attenuation_interpolation=None):"+s[j+len(pat):]
open('pyrex/ray_tracing.py','w').write(s)
sub('pyrex/custom/layered_ice/ray_tracing.py', "    def propagate(self, signal=None, polarization=None):", "    def propagate(self, signal=None, polarization=None,\n                  attenuation_interpolation=None):")
sub('pyrex/ray_tracing.py', "        log_term_1 = ice.n0*n_z - beta**2 - np.sqrt(alpha*gamma)\n", "        log_term_1 = ((beta*ice.k*np.exp(ice.a*z))**2\n                      / (ice.n0*n_z - beta**2 + np.sqrt(alpha*gamma)))\n")
sub('pyrex/ice_model.py', "            elif n>self.index(self.valid_range[0]):", "            elif n>=self.index(self.valid_range[0]):")
sub('pyrex/ice_model.py', "        depths[n>self.index(self.valid_range[0])] = self.valid_range[0]", "        depths[n>=self.index(self.valid_range[0])] = self.valid_range[0]")
sub('pyrex/signals.py', "values = np.interp(ts, fft_times, fft_values, period=length)", "values = np.interp(ts, fft_times, fft_values,\n                               period=length+self._dt)")
sub('pyrex/io.py', "                tmp = self._object[val][tmp_start:tmp_end]\n                start = 0\n                for length in tmp_indices[:, 1]:\n                    self._data[key].append(tmp[start:start+length])\n                    start = start+length\n", "                tmp = self._object[val][tmp_start:tmp_end]\n                for start, length in tmp_indices:\n                    start -= tmp_start\n                    self._data[key].append(tmp[start:start+length])\n")
sub('pyrex/io.py', "            stop = self._num_events if key.stop is None else key.stop\n            slice_range = min(self._slice_range, stop-start)\n", "            stop = self._num_events if key.stop is None else key.stop\n            if start<0:\n                start += self._num_events\n            if stop<0:\n                stop += self._num_events\n            slice_range = min(self._slice_range, stop-start)\n")
sub('pyrex/io.py', "                                extra_data[start_index+j, i] = ant.trigger(wave)", "                                extra_data[start_index+j, k] = ant.trigger(wave)")
sub('pyrex/io.py', "        self._preset_all_indices()\n\n        if (self._write_data['particles'] and", "        try:\n            self._add_event_data(event, triggered, ray_paths, polarizations,\n                                 events_thrown)\n        except Exception:\n            indices = self._file[self._data_locs['indices']]\n            if indices.shape[0]>self._counters['indices']:\n                indices.resize(self._counters['indices'], axis=0)\n            raise\n\n        self._counters['indices'] += 1\n\n    def _add_event_data(self, event, triggered, ray_paths, polarizations,\n                        events_thrown):\n        self._preset_all_indices()\n\n        if (self._write_data['particles'] and")
sub('pyrex/io.py', "            self._write_waveforms()\n\n        self._counters['indices'] += 1\n\n", "            self._write_waveforms()\n\n")
sub('pyrex/antenna.py', "        self.signals.append(total_signal)\n", "        self.signals.append(total_signal)\n        self._all_waves.clear()\n        self._triggers.clear()\n")
sub('pyrex/detector.py', "        return self.antenna.receive(signal, direction=direction,\n                                    polarization=polarization,\n                                    force_real=force_real)", "        self.antenna.receive(signal, direction=direction,\n                             polarization=polarization,\n                             force_real=force_real)\n        self._all_waves.clear()\n        self._triggers.clear()")
sub('pyrex/detector.py', "                        sub_kwargs = {key: val for key, val in kwargs.items()\n                                      if key in keys}\n                        sub.build_antennas(**sub_kwargs)", "                        if any(p.kind==p.VAR_KEYWORD\n                               for p in sig.parameters.values()):\n                            sub_kwargs = kwargs\n                        else:\n                            sub_kwargs = {key: val\n                                          for key, val in kwargs.items()\n                                          if key in keys}\n                        sub.build_antennas(**sub_kwargs)")
print('candidate repairs applied (not yet: #23 scalar response, #24 noise order, #25 empty-file iteration, #26 layered reflection angle)')
PY
echo "scratch tree ready in /tmp/scratch/fx"
