# C15 + C16 prototypes
import numpy as np, sys
from scipy import integrate
import pyrex
from pyrex.earth_model import *
from pyrex.ice_model import *
from pyrex.custom.layered_ice import LayeredIce
np.seterr(all='ignore')
seed=int(sys.argv[1]); rng=np.random.default_rng(seed); NC=int(sys.argv[2])
viol=[]
# ---- reference tables typed independently (PREM, Dziewonski & Anderson 1981; AraSim core-mantle-crust)
PREM_R=6.3710e6
PREM_SHELLS=[(0,1.2215e6,lambda x:13.0885-8.8381*x**2),(1.2215e6,3.4800e6,lambda x:12.5815-1.2638*x-3.6426*x**2-5.5281*x**3),
 (3.4800e6,5.7010e6,lambda x:7.9565-6.4761*x+5.5283*x**2-3.0807*x**3),(5.7010e6,5.7710e6,lambda x:5.3197-1.4836*x),
 (5.7710e6,5.9710e6,lambda x:11.2494-8.0298*x),(5.9710e6,6.1510e6,lambda x:7.1089-3.8045*x),(6.1510e6,6.3466e6,lambda x:2.691+0.6924*x),
 (6.3466e6,6.3560e6,lambda x:2.9),(6.3560e6,6.3680e6,lambda x:2.6),(6.3680e6,6.3710e6,lambda x:1.02)]
CMC_R=6.378140e6
CMC_SHELLS=[(0,np.sqrt(1.2e13),lambda x:14.0),(np.sqrt(1.2e13),CMC_R-4e4,lambda x:3.4),(CMC_R-4e4,CMC_R,lambda x:2.9)]
def refdens(r,shells,R):
    for lo,hi,f in shells:
        if lo<=r<hi: return float(f(r/R))
    return 0.0
def exact(shells,R,ep,d):
    e=np.array([ep[0],ep[1],ep[2]+R],float); d=np.array(d,float); d/=np.linalg.norm(d)
    b=np.dot(e,d); disc=b*b-np.dot(e,e)+R*R
    if disc<=0: return 0.0,0.0,[]
    L=-b+np.sqrt(disc)
    if L<=0: return 0.0,0.0,[]
    pts=[0.0,L]; jumps=[]
    radii=[s[1] for s in shells]
    for i,rad in enumerate(radii):
        dd=b*b-np.dot(e,e)+rad*rad
        if dd>0:
            for sgn in (-1,1):
                t=-b+sgn*np.sqrt(dd)
                if 0<t<=L+1e-9:
                    lo=refdens(rad*(1-1e-12),shells,R); hi=refdens(rad*(1+1e-12),shells,R); jumps.append(abs(hi-lo))
                    if t<L: pts.append(t)
    pts=sorted(pts); tot=0
    for a_,b_ in zip(pts[:-1],pts[1:]):
        tot+=integrate.quad(lambda t: refdens(np.sqrt(max(np.dot(e,e)+2*t*b+t*t,0)),shells,R),a_,b_,epsrel=1e-10,limit=200)[0]
    return 100*tot, L, jumps
ncases=0
for it in range(NC):
    earth,shells,R=[(PREM(),PREM_SHELLS,PREM_R),(CoreMantleCrustModel(),CMC_SHELLS,CMC_R)][rng.integers(0,2)]
    # density
    rs=np.concatenate((rng.uniform(0,1.1*R,size=5),[s[1]*(1+e) for s in shells for e in (-1e-15,0,1e-15)],[0.0,-5.0,R,R+1]))
    arr=earth.density(rs)
    for r,a in zip(rs,arr):
        ref=refdens(r,shells,R); sc=float(earth.density(float(r)))
        if abs(a-ref)>1e-12 or abs(sc-ref)>1e-12: viol.append(('C15','density',type(earth).__name__,float(r),float(a),ref))
    # slant depth
    ep=np.array([rng.uniform(-1e5,1e5),rng.uniform(-1e5,1e5),-rng.uniform(0,3000) if rng.random()<0.9 else rng.uniform(0,50)])
    mode=rng.integers(0,4)
    ct=[rng.uniform(-1,1),rng.uniform(-0.05,0.05),-1.0,1.0][mode]; st=np.sqrt(max(1-ct*ct,0)); ph=rng.uniform(0,2*np.pi)
    d=np.array([st*np.cos(ph),st*np.sin(ph),ct])
    step=float(rng.choice([2000,500,125,31]))
    ncases+=1
    try:
        v=earth.slant_depth(ep,d*rng.uniform(0.01,100),step=step)
        ex,L,jumps=exact(shells,R,ep,d)
        if L>0:
            n=int(L/step)+(1 if L%step else 0)
            h=L/(n-1) if n>1 else L
            bound=100*(h*(sum(jumps)+ (refdens(np.linalg.norm([ep[0],ep[1],ep[2]+R]),shells,R))) + h*h*L*60/R**2/12*1.5)*1.5 + 1e-9*ex
            if n==1: bound=ex*(1+1e-9)+1e-9
            if abs(v-ex)>bound: viol.append(('C15','slant',type(earth).__name__,float(v),float(ex),float(bound),step,float(L),float(ct)))
        else:
            if v!=0: viol.append(('C15','not zero outside',float(v)))
        # azimuth / length invariance
        v2=earth.slant_depth((ep[0],ep[1],ep[2]),(d[1]*3,-d[0]*3,d[2]*3),step=step)
        # azimuth invariance holds exactly only for ep on the axis; use ep' rotated with direction
        epr=np.array([ep[1],-ep[0],ep[2]]); v3=earth.slant_depth(epr,(d[1],-d[0],d[2]),step=step)
        hh=(L/(max(int(L/step)+(1 if L%step else 0),2)-1)) if L>0 else step
        if abs(v3-v)>1e-9*max(abs(v),1)+100*hh*(max([0.0]+[refdens(R*(1-1e-9),shells,R)]))*0.5*1.01: viol.append(('C15','azimuth',float(v),float(v3),float(hh)))
    except Exception as e: viol.append(('C15','EXC',type(e).__name__,str(e)[:60]))
print('C15 cases',ncases,'violations',sum(1 for v in viol if v[0]=='C15'))
# ---- C16
n16=0
for it in range(NC):
    k=rng.integers(0,5)
    if k==0: ice=AntarcticIce(n0=rng.uniform(1.5,1.9),k=rng.uniform(0.1,0.5),a=rng.uniform(0.005,0.05),valid_range=(-rng.uniform(300,3000),0),index_above=rng.choice([1.0,None]),index_below=rng.choice([None,1.9]))
    elif k==1: ice=ArasimIce()
    elif k==2: ice=GreenlandIce()
    elif k==3: ice=UniformIce(rng.uniform(1.2,1.9),valid_range=(-rng.uniform(100,3000),0),index_above=rng.choice([1.0,None]),index_below=rng.choice([None,1.5]))
    else:
        zb=-rng.uniform(50,500); ice=LayeredIce([UniformIce(1.4,valid_range=(zb,0),index_above=None,index_below=None),AntarcticIce(valid_range=(-2000,zb),index_above=None,index_below=None)],index_above=1.0,index_below=None)
    n16+=1
    try:
        lo,hi=(ice.valid_range if k!=4 else (-2000,0))
        zs=np.array([hi+5,hi+1e-9,hi,np.nextafter(hi,-1),rng.uniform(lo,hi),rng.uniform(lo,hi),np.nextafter(lo,0),lo,lo-1e-6,lo-100.])
        arr=ice.index(zs)
        for z,a in zip(zs,arr):
            s=ice.index(float(z))
            if not (a==s): viol.append(('C16','scalar/array index',type(ice).__name__,float(z),float(a),float(s)))
        if arr[0]!=ice.index_above or arr[-1]!=ice.index_below: viol.append(('C16','outside index',type(ice).__name__))
        zz=np.sort(rng.uniform(lo,hi,size=30)); nn=ice.index(zz)
        if np.any(np.diff(nn)>1e-15): viol.append(('C16','not increasing with depth',type(ice).__name__))
        if k<3:
            for z in rng.uniform(lo+1,hi-1,size=5):
                hstep=1e-3; fd=(ice.index(z+hstep)-ice.index(z-hstep))/(2*hstep); g=ice.gradient(z)
                if g[0]!=0 or g[1]!=0 or abs(g[2]-fd)>1e-5*abs(fd)+8*np.finfo(float).eps*ice.n0/hstep: viol.append(('C16','gradient',type(ice).__name__,float(z),float(g[2]),float(fd)))
                n=ice.index(z); zi=ice.depth_with_index(n)
                bound=8*np.finfo(float).eps*ice.n0/(ice.a*max(ice.n0-n,1e-300))+1e-9
                if not (lo<=zi<=hi): viol.append(('C16','inverse outside range',float(zi)))
                elif abs(zi-z)>bound: viol.append(('C16','inverse',type(ice).__name__,float(z),float(zi),float(bound)))
            for n in (0.5,ice.index(hi)-1e-3,ice.n0,ice.n0+0.1,ice.index(lo)):
                zi=ice.depth_with_index(n); za=ice.depth_with_index(np.array([n]))[0]
                if not (lo<=zi<=hi) or not (lo<=za<=hi): viol.append(('C16','clamp',type(ice).__name__,float(n),float(zi),float(za)))
        if k<4:
            z=rng.uniform(lo,hi,size=3); f=10**rng.uniform(6,10,size=4)
            M=ice.attenuation_length(z,f)
            if M.shape!=(3,4) or not np.all(np.isfinite(M)) or np.any(M<=0): viol.append(('C16','atten matrix',type(ice).__name__))
            for i in range(3):
                row=ice.attenuation_length(float(z[i]),f); 
                if np.shape(row)!=(4,) or not np.allclose(row,M[i],rtol=1e-12): viol.append(('C16','atten row',type(ice).__name__))
                for j in range(4):
                    sc=ice.attenuation_length(float(z[i]),float(f[j]))
                    if np.ndim(sc)!=0 or abs(sc-M[i,j])>1e-12*M[i,j]: viol.append(('C16','atten scalar',type(ice).__name__))
            col=ice.attenuation_length(z,float(f[0]))
            if np.shape(col)!=(3,) or not np.allclose(col,M[:,0],rtol=1e-12): viol.append(('C16','atten col',type(ice).__name__))
        if k==4:
            for z in (0.0,-1e-9,zb+1e-9,zb,zb-1e-9,-1999.,-2000.):
                lay=ice.layer_at_depth(z)
                if not (lay.valid_range[0]<=z<=lay.valid_range[1]): viol.append(('C16','layer dispatch',z))
                if ice.index(z)!=lay.index(z): viol.append(('C16','layered index',z))
            b=ice.boundaries
            if b!=sorted(b,reverse=True): viol.append(('C16','boundaries order'))
    except Exception as e: viol.append(('C16','EXC',type(ice).__name__,type(e).__name__,str(e)[:60]))
print('C16 cases',n16,'violations',sum(1 for v in viol if v[0]=='C16'))
from collections import Counter
print(Counter(v[:3] for v in viol).most_common(10))
for v in viol[:8]: print(v)
