import numpy as np, os, tempfile, shutil
import pyrex
from pyrex.io import File
from pyrex.particle import *
from pyrex.antenna import Antenna
d=tempfile.mkdtemp(dir='/tmp/scratch')
ants=[Antenna((0,0,-100),noisy=False)]
fn=os.path.join(d,'empty.h5')
with File(fn,'w',write_rays=False) as f: f.set_detector(ants)
with File(fn,'r') as f:
    print('empty len',len(f))
    try: print('iter', [e for e in f])
    except Exception as e: print('iter EXC',type(e).__name__,str(e)[:80])
    try: print('total thrown', f.total_events_thrown)
    except Exception as e: print('total EXC',type(e).__name__,str(e)[:80])
fn=os.path.join(d,'nopart.h5')
with File(fn,'w',write_rays=False,require_trigger=['particles']) as f:
    f.set_detector(ants)
    f.add(Event(Particle('nu_e',(0,0,-100),(0,0,1),1e6)), triggered=False)
    f.add(Event(Particle('nu_e',(0,0,-100),(0,0,1),2e6)), triggered=False)
with File(fn,'r') as f:
    print('nopart len',len(f))
    try: print('iter', [e.triggered for e in f])
    except Exception as e: print('iter EXC',type(e).__name__,str(e)[:80])
shutil.rmtree(d)
