# (a) C02 for uniform & layered tracers; (h) BasicRayTracer dz ladder; (i) attenuation integral oracle
import numpy as np, sys, time
import pyrex
from pyrex.ice_model import *
from pyrex.ray_tracing import *
from pyrex.custom.layered_ice import *
from rayode import trace_to_length, C
from scipy.integrate import solve_ivp
np.seterr(all='ignore')
seed=int(sys.argv[1]); rng=np.random.default_rng(seed); NC=int(sys.argv[2])
viol=[]
def sym_check(make, a, b, tag, ice):
    try:
        s1=make(a,b).solutions; e1=make(a,b).exists
        s2=make(b,a).solutions
        sh=np.array([rng.uniform(-5e3,5e3),rng.uniform(-5e3,5e3),0]); ang=rng.uniform(0,2*np.pi)
        R=np.array([[np.cos(ang),-np.sin(ang),0],[np.sin(ang),np.cos(ang),0],[0,0,1]])
        s3=make(R@a+sh,R@b+sh).solutions
    except Exception as e:
        viol.append((tag,'EXC',type(e).__name__,str(e)[:60])); return 0
    if e1!=(len(s1)>0): viol.append((tag,'exists'))
    if len(s1)!=len(s2) or len(s1)!=len(s3): viol.append((tag,'count',len(s1),len(s2),len(s3))); return 0
    f=np.array([1e8,1e9])
    # match by path length (ordering may differ under swap for reflected families)
    def key(p): return round(float(p.path_length),6)
    for p,w in zip(s1,s3):
        d=max(abs(p.path_length-w.path_length)/p.path_length, abs(p.tof-w.tof)/p.tof, np.max(np.abs(R@p.emitted_direction-w.emitted_direction)), np.max(np.abs(R@p.received_direction-w.received_direction)), np.max(np.abs(p.attenuation(f)-w.attenuation(f))))
        if d>1e-7: viol.append((tag,'translate/rotate',float(d)))
    used=set()
    for p in s1:
        best=min(((abs(q.path_length-p.path_length),i,q) for i,q in enumerate(s2) if i not in used), key=lambda x:x[0])
        _,i,q=best; used.add(i)
        dg=max(abs(p.path_length-q.path_length)/p.path_length, abs(p.tof-q.tof)/p.tof, np.max(np.abs(p.emitted_direction+q.received_direction)), np.max(np.abs(p.received_direction+q.emitted_direction)))
        da=np.max(np.abs(np.log(p.attenuation(f))-np.log(q.attenuation(f))))
        g=lambda z: 1.0/ice.attenuation_length(float(z),f) if not hasattr(ice,'layers') else 1.0/ice.layers[0].attenuation_length(float(z),f)
        pts=p._points if hasattr(p,'_points') else np.vstack([p.paths[0]._points[0]]+[sp._points[-1] for sp in p.paths])
        bound=0
        for p1,p2 in zip(pts[:-1],pts[1:]):
            if p1[2]==p2[2]: continue
            nst=int(abs(p2[2]-p1[2])/1)+2; dpz=np.linalg.norm(p2-p1)/nst
            bound+=np.max(np.abs(g(p1[2])-g(p2[2])))*dpz
        if dg>1e-9: viol.append((tag,'reciprocity geometry',float(dg),len(s1)))
        if da>bound*(1+1e-6)+1e-12: viol.append((tag,'reciprocity attenuation',float(da),float(bound)))
    return len(s1)
nu=nl=0
for it in range(NC):
    zlo=-rng.uniform(100,3000)
    ice=UniformIce(rng.uniform(1.2,1.9),valid_range=(zlo,0),index_above=rng.choice([1.0,None]),index_below=rng.choice([None,1.5]))
    Rn=int(rng.integers(0,4))
    class UT(UniformRayTracer): max_reflections=Rn
    a=np.array([rng.uniform(-1e3,1e3),rng.uniform(-1e3,1e3),rng.uniform(zlo,0)]); rho=10**rng.uniform(0,3.5); ph=rng.uniform(0,2*np.pi)
    b=np.array([a[0]+rho*np.cos(ph),a[1]+rho*np.sin(ph),rng.uniform(zlo,0)])
    nu+=sym_check(lambda x,y: UT(x,y,ice),a,b,'uniform',ice)
for it in range(NC//3):
    nlay=int(rng.integers(2,4)); bounds=sorted(rng.uniform(-900,-50,size=nlay-1),reverse=True); edges=[0]+list(bounds)+[-1000]
    layers=[UniformIce(rng.uniform(1.3,1.8),valid_range=(edges[i+1],edges[i]),index_above=None,index_below=None) for i in range(nlay)]
    ice=LayeredIce(layers,index_above=1.0,index_below=None)
    a=np.array([rng.uniform(-100,100),rng.uniform(-100,100),-rng.uniform(1,999)]); rho=10**rng.uniform(0.5,3); ph=rng.uniform(0,2*np.pi)
    b=np.array([a[0]+rho*np.cos(ph),a[1]+rho*np.sin(ph),-rng.uniform(1,999)])
    nl+=sym_check(lambda x,y: LayeredRayTracer(x,y,ice),a,b,'layered-uniform',ice)
print('uniform paths',nu,'layered paths',nl,'violations',len(viol))
from collections import Counter
print(Counter(v[:2] for v in viol)); 
for v in viol[:6]: print(v)
# (h) Basic dz ladder
ice=AntarcticIce(); nf=lambda z: ice.n0-ice.k*np.exp(ice.a*z); dn=lambda z:-ice.k*ice.a*np.exp(ice.a*z)
res={}
for it in range(40):
    z0=rng.uniform(-1500,-5); z1=rng.uniform(-400,-5); rho=10**rng.uniform(0.5,3.3)
    a=np.array([0,0,z0]); b=np.array([rho,0,z1])
    for dz in (0.25,1,4):
        try: sols=BasicRayTracer(a,b,ice,dz=dz).solutions
        except Exception as e: res.setdefault((dz,'exc'),[]).append(1); continue
        for p in sols:
            r,z,T,dr,dzz,nr,nt=trace_to_length(nf,dn,0.0,z0,p.emitted_direction,p.path_length)
            res.setdefault(dz,[]).append((np.hypot(r-rho,z-z1), p.path_length, abs(T-p.tof)/p.tof))
for dz in (0.25,1,4):
    arr=np.array(res.get(dz,[(0,1,0)])); print('basic dz',dz,'n',len(arr),'max miss %.3g  max miss/dz %.3g  max (miss-0.6dz)/L %.3g  max dT %.3g'%(arr[:,0].max(),arr[:,0].max()/dz,((arr[:,0]-0.6*dz)/arr[:,1]).max(),arr[:,2].max()), 'exc',len(res.get((dz,'exc'),[])))
# (i) attenuation integral oracle
def atten_oracle(ice,src_z,emitted,L,f,ztop=0.0):
    n=lambda z: ice.n0-ice.k*np.exp(ice.a*z); dnn=lambda z:-ice.k*ice.a*np.exp(ice.a*z)
    pr=n(src_z)*np.hypot(emitted[0],emitted[1]); pz=n(src_z)*emitted[2]
    def rhs(s,y):
        z,p,A=y; return [p/n(z), dnn(z), 1.0/float(ice.attenuation_length(float(z),float(f)))]
    def top(s,y): return y[0]-ztop
    top.terminal=True; top.direction=1
    st=[src_z,pz,0.0]; done=0
    for leg in range(6):
        sol=solve_ivp(rhs,[0,L-done],st,events=[top],rtol=1e-9,atol=1e-12,method='DOP853',max_step=max(L/200,1e-3))
        y=sol.y[:,-1]
        if sol.status==1: done+=sol.t[-1]; st=[ztop,-abs(y[1]),y[2]]; continue
        return np.exp(-y[2])
    return np.exp(-y[2])
devs=[]
for it in range(60):
    icek=[AntarcticIce(),GreenlandIce(),ArasimIce()][rng.integers(0,3)]
    z0=rng.uniform(-1800,-5); z1=rng.uniform(-400,-5); rho=10**rng.uniform(1,3.3)
    a=np.array([0,0,z0]); b=np.array([rho,0,z1])
    for p in SpecializedRayTracer(a,b,icek).solutions:
        if p.beta<0.02: continue
        for f in (1e8,5e8,2e9):
            A=float(p.attenuation(np.array([f]))[0]); Ao=atten_oracle(icek,z0,p.emitted_direction,p.path_length,f)
            devs.append((abs(A-Ao)/max(Ao,1e-300), abs(np.log(A)-np.log(Ao))/max(abs(np.log(Ao)),1e-12), type(icek).__name__, p.direct, f))
d=np.array([[x[0],x[1]] for x in devs]); print('attenuation oracle: n',len(d),'max rel dev of A %.3g, max rel dev of exponent %.3g'%(d[:,0].max(),d[:,1].max()))
w=sorted(devs,key=lambda x:-x[1])[:4]; print(w)
