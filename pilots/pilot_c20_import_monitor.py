# C20 prototype: fresh-interpreter import with audit hook (per module) + bytecode walk over everything incl. custom packages
import sys, subprocess, json, os
root=sys.argv[1]
mods=[]
for dirpath,dirs,files in os.walk(os.path.join(root,'pyrex')):
    for f in files:
        if f.endswith('.py'):
            rel=os.path.relpath(os.path.join(dirpath,f),root)[:-3].replace(os.sep,'.')
            if rel.endswith('.__init__'): rel=rel[:-9]
            mods.append(rel)
mods=sorted(set(mods))
child=r'''
import sys, json, importlib, warnings
imports=[]
import builtins
_orig=builtins.__import__
def _imp(name, globals=None, locals=None, fromlist=(), level=0):
    who=(globals or {}).get('__name__','')
    if who.startswith('pyrex') and level==0: imports.append(name)
    return _orig(name, globals, locals, fromlist, level)
builtins.__import__=_imp
import logging; logging.disable(logging.CRITICAL)
res={'module':sys.argv[1]}
with warnings.catch_warnings(record=True) as w:
    warnings.simplefilter('always')
    try:
        importlib.import_module(sys.argv[1]); res['ok']=True
    except BaseException as e:
        res['ok']=False; res['error']=type(e).__name__+': '+str(e)[:200]
    res['warnings']=sorted(set('%s: %s'%(x.category.__name__,str(x.message)[:80]) for x in w if 'pyrex' in (x.filename or '')))
import sysconfig
std=set(sys.stdlib_module_names)
tops=sorted(set(m.split('.')[0] for m in imports))
res['third_party']=[t for t in tops if t not in std and t not in ('pyrex','numpy','scipy','h5py') and not t.startswith('_')]
print(json.dumps(res))
'''
bad=0
for m in mods:
    r=subprocess.run(['/venv/bin/python','-c',child,m],capture_output=True,text=True,env=dict(os.environ,PYTHONPATH=root),timeout=120)
    try: res=json.loads(r.stdout.strip().splitlines()[-1])
    except Exception: res={'module':m,'ok':False,'error':'no output: '+r.stderr[-200:]}
    flag = (not res['ok']) or res.get('third_party')
    if flag or res.get('warnings'): print(json.dumps(res)[:400])
    bad+= 1 if flag else 0
print('modules',len(mods),'flagged',bad)
