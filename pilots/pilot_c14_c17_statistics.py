# C14 statistics + C17 + C19 + C08 prototypes
import numpy as np, sys
from scipy import stats
import pyrex
from pyrex.particle import *
from pyrex.signals import *
from pyrex.antenna import *
from pyrex.detector import *
np.seterr(all='ignore')
seed=int(sys.argv[1]); rng=np.random.default_rng(seed); np.random.seed(seed); N=int(sys.argv[2])
viol=[]
# ---- C14: bounds, cross sections, distributions
ids=['nu_e','nu_e_bar','nu_mu','nu_mu_bar','nu_tau','nu_tau_bar']
NA=6.02214076e23
for model in (CTWInteraction,GQRSInteraction):
    for dec in (4,7,10):
        E=10.0**dec
        kinds=[];ys={'cc':[],'nc':[]}
        for i in range(N):
            pid=ids[i%6]
            p=Particle(pid,(0,0,-100),(0,0,1),E,interaction_model=model)
            it=p.interaction; y=it.inelasticity; s=it.em_frac+it.had_frac
            if not (0<=y<=1 and it.em_frac>=0 and it.had_frac>=0 and s<=1+1e-12): viol.append(('C14','bounds',model.__name__,pid,float(y),float(s)))
            if it.kind.name=='neutral_current' and not (it.em_frac==0 and it.had_frac==y): viol.append(('C14','NC fractions',))
            if it.kind.name=='charged_current' and pid.startswith('nu_e') and abs(s-1)>1e-15: viol.append(('C14','nu_e CC sum',float(s)))
            kinds.append(it.kind.name); 
            if True: ys['cc' if it.kind.name=='charged_current' else 'nc'].append(y)
            if abs(it.interaction_length*NA*it.cross_section-1)>1e-9 or abs(it.total_interaction_length*NA*it.total_cross_section-1)>1e-9: viol.append(('C14','interaction length',))
        ncf=np.mean([k=='neutral_current' for k in kinds])
        if model is CTWInteraction: pn=0.252162+0.0256*np.log(np.log10(E)-1.76)
        else: pn=1-0.6865254
        z=(ncf-pn)/np.sqrt(pn*(1-pn)/N)
        if abs(z)>4.9: viol.append(('C14','NC fraction',model.__name__,dec,float(ncf),float(pn),float(z)))
        # inelasticity CDF
        if model is GQRSInteraction:
            cdf=lambda y: 1-(np.exp(-np.asarray(y)**0.4)-1/np.e)/(1-1/np.e)
            for k in ('cc','nc'):
                if len(ys[k])>50:
                    pv=stats.kstest(ys[k],cdf).pvalue
                    if pv<1e-6: viol.append(('C14','GQRS y dist',k,dec,float(pv)))
        else:
            eps=np.log10(E)
            plow=max(0.128*np.sin(-0.197*(eps-21.8)),0)
            def cdf_factory(a0,a1,a2,a3):
                c1=a0-a1*np.exp(-(eps-a2)/a3); c2=2.55-0.0949*eps
                c1l=0-0.0941*np.exp(-(eps-4.72)/0.456)
                def cdf(y):
                    y=np.asarray(y,float); out=np.zeros_like(y)
                    lowpart=np.clip(((y-c1l)**(1-1/c2)-(0-c1l)**(1-1/c2))/((1e-3-c1l)**(1-1/c2)-(0-c1l)**(1-1/c2)),0,1)
                    hipart=np.clip(np.log((np.maximum(y,1e-3)-c1)/(1e-3-c1))/np.log((1-c1)/(1e-3-c1)),0,1)
                    return plow*lowpart+(1-plow)*np.where(y<1e-3,0,hipart)
                return cdf
            for k,pars in (('nc',(-0.005,0.23,3,1.7)),):
                if len(ys[k])>50:
                    pv=stats.kstest(ys[k],cdf_factory(*pars)).pvalue
                    if pv<1e-6: viol.append(('C14','CTW y dist',k,dec,float(pv)))
    Es=10**np.linspace(3,12,120)
    for pid in ('nu_e','nu_tau_bar'):
        tot=[];cc=[];nc=[]
        for E in Es:
            a=Particle(pid,(0,0,-1),(0,0,1),E,interaction_model=model,interaction_type='cc').interaction; b=Particle(pid,(0,0,-1),(0,0,1),E,interaction_model=model,interaction_type='nc').interaction
            tot.append(a.total_cross_section); cc.append(a.cross_section); nc.append(b.cross_section)
        tot,cc,nc=map(np.array,(tot,cc,nc))
        if not (np.all(cc>0) and np.all(nc>0) and np.all(np.diff(tot)>0) and np.all(np.diff(cc)>0) and np.all(np.diff(nc)>0)): viol.append(('C14','xs monotone/positive',model.__name__,pid))
        if model is CTWInteraction and np.max(np.abs(cc+nc-tot)/tot)>1e-12: viol.append(('C14','xs sum',pid))
print('C14 violations',sum(1 for v in viol if v[0]=='C14'))
# ---- C17 rms + band power + reproducibility
for it in range(60):
    Nn=int(rng.choice([64,100,257,512])); dt=10**rng.uniform(-10,-8); t=rng.uniform(-1e-6,1e-6)+np.arange(Nn)*dt; fny=0.5/dt
    band=sorted(rng.uniform(0.02,0.9,size=2)*fny)
    if band[1]-band[0]<0.05*fny: continue
    for cls in (FFTThermalNoise,FullThermalNoise):
        uq=int(rng.integers(1,4))
        n=cls(t,band,f_amplitude=1.0,rms_voltage=3.0,uniqueness_factor=uq)
        if len(n.freqs)==0: continue
        # rms over full period
        if cls is FFTThermalNoise:
            full=n.with_times(t[0]+np.arange(Nn*uq)*dt).values
            rms=np.sqrt(np.mean(full**2))
            if abs(rms-3.0)>1e-6*3.0: viol.append(('C17','rms unit amps',cls.__name__,float(rms),Nn,uq))
            spec=np.abs(np.fft.rfft(full))**2; fr=np.fft.rfftfreq(len(full),dt)
            outp=spec[(fr<band[0]-1e-9*fny)|(fr>band[1]+1e-9*fny)].sum()/spec.sum()
            if outp>1e-20: viol.append(('C17','out-of-band power',float(outp)))
        n3=cls(t,band,f_amplitude=1.0,rms_voltage=3.0,uniqueness_factor=uq)
        if np.allclose(n.values,n3.values): viol.append(('C17','independent objects equal',))
        n2=cls(t,band,f_amplitude=1.0,rms_voltage=3.0,uniqueness_factor=uq)
        n2.amps=n.amps.copy(); n2.phases=n.phases.copy()
        if not np.allclose(n2.values,n.values,rtol=0,atol=1e-12): viol.append(('C17','same basis differs',cls.__name__))
    T,Rr=rng.uniform(100,400),rng.uniform(10,200)
    n=FFTThermalNoise(t,band,temperature=T,resistance=Rr)
    if abs(n.rms-np.sqrt(1.380649e-23*T*Rr*(band[1]-band[0])))>1e-12*n.rms: viol.append(('C17','kTRB',))
# Rayleigh mean
t=np.arange(256)*1e-9; vals=[]
for i in range(300):
    n=FFTThermalNoise(t,(1e8,3e8),rms_voltage=1.0); vals.append(np.mean(n.values**2))
m=np.mean(vals); se=np.std(vals)/np.sqrt(len(vals))
if abs(m-1)>5*se: viol.append(('C17','rayleigh mean rms^2',float(m),float(se)))
print('C17 violations',sum(1 for v in viol if v[0]=='C17'))
from collections import Counter
print(Counter(v[:2] for v in viol).most_common(10)); 
for v in viol[:8]: print(v)
