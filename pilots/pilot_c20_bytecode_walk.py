# C20 bytecode walk over all modules incl. custom (needs fixtures)
import sys, dis, types, importlib, warnings, os, inspect, logging
logging.disable(logging.CRITICAL)
root=sys.argv[1]; sys.path.insert(0,root)
mods=[]
for dirpath,dirs,files in os.walk(os.path.join(root,'pyrex')):
    for f in files:
        if f.endswith('.py'):
            rel=os.path.relpath(os.path.join(dirpath,f),root)[:-3].replace(os.sep,'.')
            if rel.endswith('.__init__'): rel=rel[:-9]
            mods.append(rel)
for m in sorted(set(mods)):
    try: importlib.import_module(m)
    except BaseException as e: print('IMPORT FAIL',m,type(e).__name__,str(e)[:80])
def code_objects(co):
    yield co
    for c in co.co_consts:
        if isinstance(c, types.CodeType): yield from code_objects(c)
def chains(co):
    ins=list(dis.get_instructions(co)); i=0
    while i<len(ins):
        op=ins[i]
        if op.opname in ('LOAD_GLOBAL','LOAD_NAME'):
            chain=[op.argval]; j=i+1
            while j<len(ins) and ins[j].opname in ('LOAD_ATTR','LOAD_METHOD'):
                chain.append(ins[j].argval); j+=1
            if len(chain)>1: yield chain, (op.positions.lineno if op.positions else None)
            i=j
        else: i+=1
bad=[]; total=0; seen=set(); permod={}
for name,mod in sorted(sys.modules.items()):
    if not name.startswith('pyrex') or mod is None: continue
    src=getattr(mod,'__file__',None)
    if not src or not src.endswith('.py'): continue
    co=compile(open(src).read(), src, 'exec'); g=mod.__dict__
    for c in code_objects(co):
        for chain,line in chains(c):
            rootobj=g.get(chain[0])
            if not isinstance(rootobj, types.ModuleType) or rootobj.__name__.split('.')[0]=='pyrex': continue
            obj=rootobj
            for a in chain[1:]:
                with warnings.catch_warnings():
                    warnings.simplefilter('error')
                    try: obj=getattr(obj,a)
                    except Exception as e: bad.append((name,line,'.'.join(chain),type(e).__name__+': '+str(e)[:60])); break
                if not isinstance(obj, types.ModuleType): break
            total+=1; seen.add((name,'.'.join(chain))); permod[name]=permod.get(name,0)+1
print('modules walked',len(permod),'chains',total,'distinct',len(seen),'bad',len(bad))
for b in bad: print('  ',b)
print({k:v for k,v in permod.items() if 'custom' in k})
