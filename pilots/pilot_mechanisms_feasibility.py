# feasibility: (d) recording proxies for library modules, (e) sys.monitoring reach counters, (f) icontract on real classes
import sys, types, warnings, numpy as np
sys.path.insert(0,'/tmp/scratch/deps')
import pyrex, pyrex.signals, pyrex.antenna, pyrex.io, pyrex.ray_tracing, pyrex.askaryan, pyrex.ice_model, pyrex.earth_model, pyrex.generation, pyrex.particle, pyrex.kernel, pyrex.detector
# ---- (d) proxies
observed=set()
class ModProxy(types.ModuleType):
    def __init__(self, real, owner, path):
        object.__setattr__(self,'_real',real); object.__setattr__(self,'_owner',owner); object.__setattr__(self,'_path',path)
    def __getattr__(self, name):
        real=object.__getattribute__(self,'_real'); owner=object.__getattribute__(self,'_owner'); path=object.__getattribute__(self,'_path')
        with warnings.catch_warnings():
            warnings.simplefilter('error')
            val=getattr(real,name)       # AttributeError / warning propagates as an event
        observed.add((owner,path+'.'+name))
        if isinstance(val,types.ModuleType): return ModProxy(val,owner,path+'.'+name)
        return val
LIBS=('numpy','scipy','h5py')
n_inst=0
for mname,mod in list(sys.modules.items()):
    if not mname.startswith('pyrex') or mod is None: continue
    for gname,gval in list(vars(mod).items()):
        if isinstance(gval,types.ModuleType) and gval.__name__.split('.')[0] in LIBS:
            setattr(mod,gname,ModProxy(gval,mname,gname)); n_inst+=1
print('proxies installed',n_inst)
# ---- (e) reach counters
import collections
reach=collections.Counter()
anchors={pyrex.signals.Signal.filter_frequencies.__code__, pyrex.signals.Signal._get_filter_response.__code__, pyrex.antenna.Antenna.full_waveform.__code__, pyrex.ray_tracing.SpecializedRayTracePath._int_terms.__code__, pyrex.io.HDF5Writer._write_indices.__code__}
mon=sys.monitoring; TID=3
mon.use_tool_id(TID,'vt-reach')
def on_start(code, off):
    if code in anchors: reach[code.co_qualname]+=1
    else: return mon.DISABLE
mon.register_callback(TID, mon.events.PY_START, on_start)
mon.set_events(TID, mon.events.PY_START)
# ---- (f) icontract on real classes
import icontract
class InvBroken(Exception): pass
def caches_bounded(self): return len(self._all_waves)<=len(self.signals) and len(self._triggers)<=len(self._all_waves)
AntI=icontract.invariant(caches_bounded, error=InvBroken)(pyrex.antenna.Antenna)
evals=collections.Counter()
def values_match_times(self, result=None):
    evals['signal_init']+=1
    return len(self.values)==len(self.times)
orig_init=pyrex.signals.Signal.__init__
pyrex.signals.Signal.__init__=icontract.ensure(lambda self: values_match_times(self), error=InvBroken)(orig_init)
# ---- workload
import time; t0=time.time()
from pyrex import *
np.random.seed(0)
a=pyrex.antenna.Antenna((0,0,-100),noisy=True,freq_range=(1e8,3e8),noise_rms=1.0)
s=Signal(np.arange(64)*1e-9,np.random.randn(64),'voltage'); a.receive(s); a.all_waveforms; a.is_hit
rt=RayTracer((0,0,-500.),(300,0,-100.)); 
for p in rt.solutions:
    p.propagate(signal=Signal(np.arange(64)*1e-9,np.random.randn(64),'field'),polarization=(0,1,0))
gen=CylindricalGenerator(1000,1000,1e8); ev=gen.create_event()
k=EventKernel(gen,[a]); k.event()
import tempfile,os,shutil
d=tempfile.mkdtemp(dir='/tmp/scratch')
with File(os.path.join(d,'x.h5'),'w',write_rays=False,require_trigger=False) as f:
    f.set_detector([a]); f.add(ev,triggered=True)
shutil.rmtree(d)
mon.set_events(TID,0); mon.free_tool_id(TID)
print('workload %.2fs'%(time.time()-t0))
print('observed chains',len(observed)); print(sorted(x[1] for x in observed if x[0]=='pyrex.signals')[:25])
print('reach',dict(reach)); print('contract evals',dict(evals))
# does the invariant fire on a corrupted state?
b=AntI((0,0,-1),noisy=False); b._all_waves.append(1)
try:
    b.clear(); print('invariant silent after clear (state repaired)')
    b._all_waves.append(1); b.set_orientation(); print('NOT FIRED')
except InvBroken as e: print('invariant fired as expected')
