# C01 + C02 prototype (post-fix tolerances)
import numpy as np, sys, time
import pyrex
from pyrex.ice_model import *
from pyrex.ray_tracing import *
from rayode import trace_to_length
np.seterr(all='ignore')
seed=int(sys.argv[1]); rng=np.random.default_rng(seed); N=int(sys.argv[2])
viol=[]; known=[]; npaths=0; t0=time.time(); worst=dict(reg=0,nv=0,rec=0,tr=0)
def classify(ice,a,b,exc=None):
    # known-finding classifiers (input-only)
    sat = lambda z: (ice.n0-(ice.n0-ice.k*np.exp(ice.a*z)))< 8*np.finfo(float).eps*ice.n0
    if sat(a[2]) and sat(b[2]): return 'KF-saturated'
    if abs(a[2]-b[2])<1e-2: return 'KF-horizontal'
    return None
def classify_path(rt,p):
    ang=np.arcsin(min(1,p.beta/rt.n0))
    if rt.max_angle-ang<2e-6: return 'KF-link'
    return None
for i in range(N):
    kind=rng.integers(0,4)
    ice=[AntarcticIce(),GreenlandIce(),ArasimIce(),AntarcticIce(n0=rng.uniform(1.5,1.9),k=rng.uniform(0.1,0.5),a=rng.uniform(0.005,0.05),valid_range=(-rng.uniform(300,3000),0))][kind]
    zmin=ice.valid_range[0]
    m=rng.integers(0,6)
    z0=rng.uniform(zmin,0); z1=rng.uniform(zmin,0)
    if m==1: z1=rng.uniform(max(zmin,-200),0)
    if m==2: z0=rng.uniform(max(zmin,-60),0); z1=rng.uniform(max(zmin,-60),0)
    rho=10**rng.uniform(-1,3.8)
    if m==3: rho=rng.uniform(0,30)
    if m==4: z1=z0+rng.uniform(-1,1)*1e-3
    z1=min(z1,0.0)
    ph=rng.uniform(0,2*np.pi)
    a=np.array([rng.uniform(-2e3,2e3),rng.uniform(-2e3,2e3),z0]); b=a+np.array([rho*np.cos(ph),rho*np.sin(ph),z1-z0])
    nfun=lambda z: ice.n0-ice.k*np.exp(ice.a*z); dn=lambda z: -ice.k*ice.a*np.exp(ice.a*z)
    try:
        rt=SpecializedRayTracer(a,b,ice); sols=rt.solutions; ex=rt.exists
    except Exception as e:
        c=classify(ice,a,b); (known if c else viol).append((c or 'EXC',type(e).__name__,a.tolist(),b.tolist())); continue
    if ex!=(len(sols)>0) or len(sols) not in (0,2):
        c=classify(ice,a,b); (known if c else viol).append((c or 'count',len(sols),ex)); continue
    for j,p in enumerate(sols):
        npaths+=1
        L=p.path_length
        r,z,T,dr,dz,nr,nt=trace_to_length(nfun,dn,0.0,z0,p.emitted_direction,L)
        miss=np.hypot(r-rho,z-z1); nv = p.beta<=1.02*p.beta_tolerance
        tol = (p.beta_tolerance/nfun(0.0))*L*1.2+0.05 if nv else 0.05+1e-5*L+2*ice.a*(1-p.uniformity_factor)*L*L
        dT=abs(T-p.tof)/p.tof
        rd=p.received_direction; ddir=np.hypot(dz-rd[2], dr-np.hypot(rd[0],rd[1]))
        snell=abs(nfun(z0)*np.hypot(*p.emitted_direction[:2])-nfun(z1)*np.hypot(*rd[:2]))
        bad=None
        if miss>tol: bad='miss %.3g tol %.3g'%(miss,tol)
        elif dT>(5e-3 if nv else 1e-4): bad='tof %.3g'%dT
        elif ddir>(1e-2 if nv else 1e-4): bad='dir %.3g'%ddir
        elif snell>1e-9: bad='snell %.3g'%snell
        elif p.direct and (nr or nt): bad='direct path turns'
        elif (not p.direct) and not (nr or nt): bad='indirect path does not turn'
        if bad:
            c=classify(ice,a,b) or classify_path(rt,p); (known if c else viol).append((c or 'RAY',bad,kind,int(m),j,float(p.beta),a.tolist(),b.tolist(),(ice.n0,ice.k,ice.a,ice.valid_range), float(rt.max_angle), float(np.arcsin(min(1,p.beta/rt.n0))), float(rt.peak_angle), float(rt.direct_r_max), float(rt.indirect_r_max), float(rt.rho), nr, nt, float(p.z_turn), float(p.z_uniform)))
        else:
            worst['nv' if nv else 'reg']=max(worst['nv' if nv else 'reg'],miss/L)
            if False: print('NEAR', '%.3g'%(miss/L), 'miss %.3g L %.4g beta %.4g kind %d m %d z0 %.1f z1 %.1f rho %.1f direct %s zuni %.1f n0 %.3f'%(miss,L,p.beta,kind,m,z0,z1,rho,p.direct,p.z_uniform,ice.n0))
    # C02 reciprocity + translation/rotation
    try:
        s2=SpecializedRayTracer(b,a,ice).solutions
        sh=np.array([rng.uniform(-5e3,5e3),rng.uniform(-5e3,5e3),0]); ang=rng.uniform(0,2*np.pi)
        R=np.array([[np.cos(ang),-np.sin(ang),0],[np.sin(ang),np.cos(ang),0],[0,0,1]])
        s3=SpecializedRayTracer(R@a+sh,R@b+sh,ice).solutions
    except Exception as e:
        c=classify(ice,a,b); (known if c else viol).append((c or 'EXC2',type(e).__name__)); continue
    if len(s2)!=len(sols) or len(s3)!=len(sols):
        c=classify(ice,a,b); (known if c else viol).append((c or 'sym count',len(sols),len(s2),len(s3))); continue
    for p,q,w in zip(sols,s2,s3):
        d1=max(abs(p.path_length-q.path_length)/p.path_length, abs(p.tof-q.tof)/p.tof, np.max(np.abs(p.emitted_direction+q.received_direction)), np.max(np.abs(p.received_direction+q.emitted_direction)))
        d2=max(abs(p.path_length-w.path_length)/p.path_length, abs(p.tof-w.tof)/p.tof, np.max(np.abs(R@p.emitted_direction-w.emitted_direction)), np.max(np.abs(R@p.received_direction-w.received_direction)))
        f=np.array([1e8,1e9]); d3=max(np.max(np.abs(p.attenuation(f)-q.attenuation(f))),np.max(np.abs(p.attenuation(f)-w.attenuation(f))))
        worst['rec']=max(worst['rec'],d1); worst['tr']=max(worst['tr'],d2)
        if d1>1e-7 or d2>1e-7 or d3>1e-6:
            c=classify(ice,a,b); (known if c else viol).append((c or 'SYM','%.3g %.3g %.3g'%(d1,d2,d3),kind,int(m),float(p.beta)))
from collections import Counter
print('pairs',N,'paths',npaths,'time %.1f'%(time.time()-t0),'worst',{k:float('%.3g'%v) for k,v in worst.items()})
print('VIOLATIONS',len(viol),Counter(v[0] for v in viol)); print('KNOWN',Counter(v[0] for v in known))
for v in viol[:8]: print(v)
