import numpy as np, sys, itertools
import pyrex
from pyrex.particle import *
from pyrex.signals import *
from pyrex.earth_model import *
from pyrex.detector import *
from pyrex.antenna import Antenna
np.seterr(all='ignore')
seed=int(sys.argv[1]); rng=np.random.default_rng(seed); np.random.seed(seed)
class NI:
    def __init__(s,p,kind=None): s.em_frac=0;s.had_frac=0;s.kind=None;s.inelasticity=0
def mk(): return Particle('nu_e',(0,0,-1),(0,0,1),1.0,interaction_model=NI)
# ---- C14 trees
viol=[]
for it in range(300):
    nroot=int(rng.integers(1,4)); roots=[mk() for _ in range(nroot)]
    ev=Event(roots if (nroot>1 or rng.random()<0.5) else roots[0])
    parent={id(r):None for r in roots}; children={id(r):[] for r in roots}; allp=list(roots); level={id(r):0 for r in roots}
    for k in range(int(rng.integers(0,12))):
        par=allp[rng.integers(0,len(allp))]
        if level[id(par)]>=5: continue
        kids=[mk() for _ in range(int(rng.integers(1,4)))]
        ev.add_children(par, kids if (len(kids)>1 or rng.random()<0.5) else kids[0])
        for c in kids: parent[id(c)]=par; children[id(c)]=[]; children[id(par)].append(c); level[id(c)]=level[id(par)]+1; allp.append(c)
    it_list=list(ev)
    if sorted(map(id,it_list))!=sorted(map(id,allp)) or len(ev)!=len(allp): viol.append(('tree iter',len(it_list),len(allp)))
    for p in allp:
        if [id(c) for c in ev.get_children(p)]!=[id(c) for c in children[id(p)]]: viol.append(('children',))
        pp=ev.get_parent(p)
        if (pp is None)!=(parent[id(p)] is None) or (pp is not None and pp is not parent[id(p)]): viol.append(('parent',))
    for L in range(0,7):
        got=sorted(id(p) for p in ev.get_from_level(L)); exp=sorted(id(p) for p in allp if level[id(p)]==L)
        if got!=exp: viol.append(('level',L))
print('C14 trees viol',len(viol), viol[:3])
# ---- C19 random trees
class Leaf(Detector):
    def set_positions(self, n, x0):
        for i in range(n): self.antenna_positions.append((x0,i,-10-i))
class Mid(Detector):
    def set_positions(self, shapes, x0):
        for j,sh in enumerate(shapes):
            self.subsets.append(Leaf(sh,x0+j) if isinstance(sh,int) else Mid(sh,x0+10*j))
def rand_shape(depth):
    if depth==0 or rng.random()<0.4: return int(rng.integers(1,4))
    return [rand_shape(depth-1) for _ in range(int(rng.integers(1,4)))]
def build(shape,x0):
    d=Leaf(shape,x0) if isinstance(shape,int) else Mid(shape,x0)
    d.build_antennas(Antenna,noisy=False); return d
v19=[]
for it in range(200):
    dets=[]
    for k in range(int(rng.integers(2,6))):
        r=rng.random()
        if r<0.6: dets.append(build(rand_shape(3),100*k))
        elif r<0.8: dets.append(Antenna((k,0,-5),noisy=False))
        else: dets.append([Antenna((k,j,-6),noisy=False) for j in range(int(rng.integers(1,3)))])
    flat=[]
    for dd in dets:
        if isinstance(dd,Antenna): flat.append(dd)
        else: flat.extend(list(dd))
    if not any(isinstance(x,Detector) for x in dets): continue
    # all parenthesisations via random binary trees, left fold, sum
    def fold(lo,hi):
        if hi-lo==1: return dets[lo]
        m=int(rng.integers(lo+1,hi)); 
        return fold(lo,m)+fold(m,hi)
    for rep in range(3):
        try:
            c=fold(0,len(dets))
        except TypeError as e:
            # list+list or antenna+antenna has no detector involved: skip
            continue
        if [id(a) for a in c]!=[id(a) for a in flat] or len(c)!=len(flat) or c[len(flat)-1] is not flat[-1] or c[0] is not flat[0]: v19.append(('assoc',len(c),len(flat)))
        hit=[a for a in flat if rng.random()<0.1]
        for a in flat: a.clear()
        for a in hit: a.receive(pyrex.Signal(np.arange(5)*1e-9,np.ones(5),'voltage'))
        if c.triggered()!=(len(hit)>0): v19.append(('triggered',))
        c.clear()
        if any(len(a.signals) for a in flat) or c.triggered(): v19.append(('clear',))
print('C19 viol',len(v19), v19[:3])
# ---- C17 matrix
v17=[]
for it in range(300):
    N=int(rng.choice([16,17,64,100,257])); dt=10**rng.uniform(-10,-8); t0=rng.uniform(-1e-6,1e-6); t=t0+np.arange(N)*dt
    fny=0.5/dt; band=sorted(rng.uniform(0,1.2*fny,size=2)); 
    if rng.random()<0.15: band[0]=0.0
    if band[1]-band[0]<1e-3*fny: continue
    uq=int(rng.integers(1,5)); cls=[FFTThermalNoise,FullThermalNoise][rng.integers(0,2)]
    try: n=cls(t,band,f_amplitude=1.0,rms_voltage=2.5,uniqueness_factor=uq)
    except Exception as e: v17.append(('EXC',cls.__name__,type(e).__name__,str(e)[:50])); continue
    if len(n.freqs) and (n.freqs.min()<band[0]-1e-9*fny or n.freqs.max()>band[1]+1e-9*fny): v17.append(('band',cls.__name__))
    if len(n.freqs)==0:
        if not np.all(n.values==0): v17.append(('empty band nonzero',))
        continue
    if cls is FFTThermalNoise:
        tt=t-t[0]; model=2.5*np.sqrt(2/len(n.freqs))*sum(a*np.cos(2*np.pi*f*tt-ph) for f,a,ph in zip(n.freqs,n.amps,n.phases))
        nyq_in = (N*uq)%2==0 and abs(n.freqs.max()-fny)<1e-6*fny
    else:
        model=2.5*np.sqrt(2/len(n.freqs))*sum(a*np.cos(2*np.pi*f*t+ph) for f,a,ph in zip(n.freqs,n.amps,n.phases)); nyq_in=False
    dev=np.max(np.abs(n.values-model))/2.5
    if dev>1e-6 and not nyq_in: v17.append(('cosine sum',cls.__name__,float(dev),N,uq,band[1]/fny, len(n.freqs)))
    # regrid
    w=n.with_times(t[3:N-2])
    if np.max(np.abs(w.values-n.values[3:N-2]))>1e-9: v17.append(('regrid',cls.__name__))
print('C17 viol',len(v17)); 
from collections import Counter
print(Counter(v[:2] for v in v17)); print(v17[:5])
# ---- C15 ladder
earth=PREM()
bad=0
for it in range(100):
    ep=(rng.uniform(-1e4,1e4),rng.uniform(-1e4,1e4),-rng.uniform(0,3000)); ct=rng.uniform(-1,0.2); st=np.sqrt(1-ct*ct); ph=rng.uniform(0,6.28)
    d=(st*np.cos(ph),st*np.sin(ph),ct)
    vals=[earth.slant_depth(ep,d,step=s) for s in (2000,500,125,31)]
    ref=earth.slant_depth(ep,d,step=8)
    errs=[abs(v-ref) for v in vals]
    if not (errs[3]<=errs[0]+1e-6*ref): bad+=1
    az=earth.slant_depth((ep[0]+5,ep[1]-3,ep[2]),(d[1],-d[0],d[2]),step=125)
print('C15 ladder non-decreasing error cases',bad)
