# C08 + C19 (dispatch) prototypes
import numpy as np, sys, inspect, scipy.fft
import pyrex
from pyrex.signals import *
from pyrex.antenna import *
from pyrex.detector import *
np.seterr(all='ignore')
seed=int(sys.argv[1]); rng=np.random.default_rng(seed); np.random.seed(seed); NC=int(sys.argv[2])
viol=[]
def rot():
    q=rng.normal(size=4); q/=np.linalg.norm(q); a,b,c,d=q
    return np.array([[a*a+b*b-c*c-d*d,2*(b*c-a*d),2*(b*d+a*c)],[2*(b*c+a*d),a*a-b*b+c*c-d*d,2*(c*d-a*b)],[2*(b*d-a*c),2*(c*d+a*b),a*a-b*b-c*c+d*d]])
def ref_filter(vals,dt,H,force_real):
    N=len(vals); fr=scipy.fft.fftfreq(2*N,d=dt); h=np.asarray(H(np.abs(fr) if force_real else fr),dtype=complex)
    if force_real: h=np.where(fr<0,np.conj(h),h)
    return np.real(scipy.fft.ifft(h*scipy.fft.fft(np.concatenate((vals,np.zeros(N))))))[:N]
class GainAnt(Antenna):
    def directional_gain(self,theta,phi): return 0.3+np.cos(theta)**2+0.2*np.cos(phi)
    def polarization_gain(self,polarization): return np.dot(polarization,self.x_axis)+0.5*np.dot(polarization,self.z_axis)
    def frequency_response(self,frequencies): return 1/(1+1j*np.asarray(frequencies)/3e8)
for it in range(NC):
    R0=rot(); z=R0[:,2]; x=R0[:,0]; pos=rng.normal(size=3)*100
    kind=rng.integers(0,3)
    mk=lambda zz,xx: (DipoleAntenna('d',pos,250e6,300e6,300,50,orientation=zz,noisy=False) if kind==0 else (GainAnt(pos,z_axis=zz,x_axis=xx,antenna_factor=rng_af,efficiency=rng_ef,noisy=False) if kind==1 else AntennaSystem(GainAnt(pos,z_axis=zz,x_axis=xx,antenna_factor=rng_af,efficiency=rng_ef,noisy=False))))
    rng_af=rng.uniform(0.5,5); rng_ef=rng.uniform(0.1,1)
    ant=mk(z,x)
    N=int(rng.choice([32,65,128])); t=rng.uniform(-1e-6,1e-6)+np.arange(N)*1e-9
    vt=rng.choice(['field','voltage']); s=Signal(t,rng.normal(size=N),vt); s2=Signal(t,rng.normal(size=N),vt)
    d=rng.normal(size=3)*rng.uniform(0.1,10); pol=rng.normal(size=3)*rng.uniform(0.1,10); fr_=bool(rng.integers(0,2))
    try:
        o=ant.apply_response(s,direction=d,polarization=pol,force_real=fr_); ov=np.array(o.values); sc=max(np.max(np.abs(ov)),1e-300)
        if o.value_type!=Signal.Type.voltage: viol.append(('C08','type'))
        a_,b_=rng.normal(size=2); comb=Signal(t,a_*s.values+b_*s2.values,vt)
        oc=ant.apply_response(comb,direction=d,polarization=pol,force_real=fr_).values; o2=ant.apply_response(s2,direction=d,polarization=pol,force_real=fr_).values
        if np.max(np.abs(oc-(a_*ov+b_*o2)))>1e-9*sc*(1+abs(a_)+abs(b_)): viol.append(('C08','linearity'))
        R=rot(); ant2=mk(R@z,R@x)
        orr=ant2.apply_response(s,direction=R@d,polarization=R@pol,force_real=fr_).values
        if np.max(np.abs(orr-ov))>1e-9*sc: viol.append(('C08','rotation',kind,float(np.max(np.abs(orr-ov))/sc)))
        base=ant.antenna if kind==2 else ant
        # independent gains
        dn=d/np.linalg.norm(d); pn=pol/np.linalg.norm(pol); y=np.cross(base.z_axis,base.x_axis)
        orig=-dn; th=np.arccos(np.clip(np.dot(orig,base.z_axis),-1,1)); phi=np.arctan2(np.dot(orig,y),np.dot(orig,base.x_axis))%(2*np.pi)
        if kind==0: dg=np.sin(th); pg=np.dot(pn,base.z_axis)
        else: dg=0.3+np.cos(th)**2+0.2*np.cos(phi); pg=np.dot(pn,base.x_axis)+0.5*np.dot(pn,base.z_axis)
        fac=dg*pg*base.efficiency/(base.antenna_factor if vt=='field' else 1)
        exp=ref_filter(s.values,t[1]-t[0],base.frequency_response,fr_)*fac
        if np.max(np.abs(exp-ov))>1e-9*max(np.max(np.abs(exp)),1e-300): viol.append(('C08','model',kind,vt,float(np.max(np.abs(exp-ov))/sc)))
        for bad in ('undefined','power'):
            try: ant.apply_response(Signal(t,np.ones(N),bad)); viol.append(('C08','accepted '+bad))
            except ValueError: pass
        n0=len(ant.signals) if kind!=2 else len(ant.antenna.signals)
        ant.receive([s,s2],direction=d,polarization=[pol,pn],force_real=fr_)
        tot=(ant.signals if kind!=2 else ant.antenna.signals)[-1].values
        e2=ant.apply_response(s,direction=d,polarization=pol,force_real=fr_).values+ant.apply_response(s2,direction=d,polarization=pn,force_real=fr_).values
        if np.max(np.abs(tot-e2))>1e-12*max(np.max(np.abs(e2)),1e-300): viol.append(('C08','receive sum'))
    except Exception as e: viol.append(('C08','EXC',type(e).__name__,str(e)[:60]))
print('C08 cases',NC,'violations',sum(1 for v in viol if v[0]=='C08'))
# ---- C19 dispatch
class A1(Detector):
    def set_positions(self,n=2,x0=0):
        for i in range(n): self.antenna_positions.append((x0,i,-10))
    def build_antennas(self, antenna_class, alpha=0, **kw): self.got_build=dict(alpha=alpha,**kw); super().build_antennas(antenna_class,noisy=False)
    def triggered(self, alpha=0, require_mc_truth=False): self.got_trig=dict(alpha=alpha,require_mc_truth=require_mc_truth); return super().triggered(require_mc_truth=require_mc_truth)
class B1(Detector):
    def set_positions(self,n=1,x0=50):
        for i in range(n): self.antenna_positions.append((x0,i,-20))
    def build_antennas(self, antenna_class, beta=1): self.got_build=dict(beta=beta); super().build_antennas(antenna_class,noisy=False)
    def triggered(self, beta=1, require_mc_truth=False): self.got_trig=dict(beta=beta,require_mc_truth=require_mc_truth); return super().triggered(require_mc_truth=require_mc_truth)
class K1(Detector):
    def set_positions(self,n=1,x0=90):
        for i in range(n): self.antenna_positions.append((x0,i,-30))
    def build_antennas(self, **kw): self.got_build=dict(kw); super().build_antennas(kw['antenna_class'],noisy=False)
for it in range(30):
    subs=[cls() for cls in rng.permutation([A1,B1,K1])]
    c=subs[0]+subs[1]+subs[2]
    kw=dict(antenna_class=Antenna)
    if rng.random()<0.7: kw['alpha']=int(rng.integers(1,9))
    if rng.random()<0.7: kw['beta']=int(rng.integers(1,9))
    try: c.build_antennas(**kw)
    except Exception as e: viol.append(('C19','build EXC',type(e).__name__,str(e)[:70])); continue
    for sdet in subs:
        sig=inspect.signature(type(sdet).build_antennas); names=[p for p in sig.parameters if p not in ('self','antenna_class')]
        haskw=any(p.kind==p.VAR_KEYWORD for p in sig.parameters.values())
        expk={k:v for k,v in kw.items() if k!='antenna_class' and (haskw or k in names)}
        got={k:v for k,v in sdet.got_build.items() if k!='antenna_class'}
        defaults={'alpha':0,'beta':1}
        got={k:v for k,v in got.items() if not (k in defaults and v==defaults[k] and k not in kw)}
        if got!=expk: viol.append(('C19','build kwargs',type(sdet).__name__,got,expk))
    if len(c)!=4: viol.append(('C19','len',len(c)))
    tk={}
    if rng.random()<0.7: tk['alpha']=int(rng.integers(1,9))
    if rng.random()<0.7: tk['beta']=int(rng.integers(1,9))
    for sdet in subs: sdet.got_trig=None
    try: r=c.triggered(**tk)
    except Exception as e: viol.append(('C19','trig EXC',type(e).__name__,str(e)[:70])); continue
    if r is not False: viol.append(('C19','trigger value'))
    for sdet in subs:
        if isinstance(sdet,K1): continue
        nm='alpha' if isinstance(sdet,A1) else 'beta'
        exp={nm:tk.get(nm,{'alpha':0,'beta':1}[nm]),'require_mc_truth':False}
        if sdet.got_trig!=exp: viol.append(('C19','trig kwargs',type(sdet).__name__,sdet.got_trig,exp))
print('C19 violations',sum(1 for v in viol if v[0]=='C19'))
from collections import Counter
print(Counter(v[:2] for v in viol).most_common(8))
for v in viol[:6]: print(v)
