# C06 pilot: random histories on FunctionSignal vs eager evaluator + fresh object
import numpy as np, sys, copy, scipy.fft
import pyrex
from pyrex.signals import *
np.seterr(all='ignore')
seed=int(sys.argv[1]); rng=np.random.default_rng(seed); np.random.seed(seed)
def eager(sig):
    """statement-level evaluator: sum over components of crop(filter_once(factor*f(ext grid - t0)))"""
    times=np.asarray(sig.times); dt=times[1]-times[0]; N=len(times)
    out=np.zeros(N)
    for f,t0,(lead,trail),fac,filts in zip(sig._functions,sig._t0s,sig._buffers,sig._factors,sig._filters):
        nb=int(np.ceil(lead/dt-1e-12)) if lead>0 else 0
        # replicate ceil semantic used by code: int(x)+ (1 if x%dt)
        nb=int(lead/dt)+(1 if lead%dt else 0); na=int(trail/dt)+(1 if trail%dt else 0)
        ext=np.concatenate((times[0]+(np.arange(-nb,0))*dt, times, times[-1]+np.arange(1,na+1)*dt))
        try: v=np.asarray(f(ext-t0),dtype=float)
        except (ValueError,TypeError): v=np.array([f(t) for t in ext-t0],dtype=float)
        v=v*fac
        if filts:
            M=len(v); fr=scipy.fft.fftfreq(2*M,d=dt); H=np.ones(2*M,complex)
            for resp,force in filts:
                if force:
                    h=np.array([complex(resp(abs(x))) for x in fr]); h=np.where(fr<0,np.conj(h),h)
                else: h=np.array([complex(resp(x)) for x in fr])
                H*=h
            v=np.real(scipy.fft.ifft(H*scipy.fft.fft(np.concatenate((v,np.zeros(M))))))[:M]
        out+=v[nb:nb+N]
    return out
def fresh(sig):
    g=FunctionSignal(np.array(sig.times),None,sig.value_type)
    g._functions=list(sig._functions); g._t0s=list(sig._t0s); g._buffers=[list(b) for b in sig._buffers]
    g._factors=list(sig._factors); g._filters=[list(f) for f in sig._filters]
    return g
funcs=[lambda t: np.sin(2e8*t), lambda t: np.exp(-(t/3e-9)**2), lambda t: np.where(t>0,1.0,0.0)*np.exp(-t/5e-9), lambda t: float(np.cos(1e8*t))]
resps=[lambda f: 1/(1+1j*f/2e8), lambda f: np.exp(-2j*np.pi*f*2e-9), lambda f: np.where(np.abs(f)<3e8,1.0,0.0)+0j, lambda f: 0.5+0*np.asarray(f)]
viol=[]; nops=0; rmr=0
for h in range(int(sys.argv[2])):
    N=int(rng.integers(8,80)); dt=rng.choice([1e-9,0.5e-9,0.37e-9]); t0=rng.uniform(-50e-9,50e-9)
    s=FunctionSignal(t0+np.arange(N)*dt, funcs[rng.integers(0,4)], rng.choice(['voltage','undefined']))
    log=[]; read_before=False; mutated_since_read=False
    for step in range(int(rng.integers(2,14))):
        op=rng.choice(['read','shift','imul','idiv','filter','buffers','resample','with_times','add','copy','times'])
        log.append(op)
        try:
            if op=='read': pass
            elif op=='shift': s.shift(rng.uniform(-20e-9,20e-9))
            elif op=='imul': s*=rng.uniform(-2,2)
            elif op=='idiv': s/=rng.uniform(0.5,2)
            elif op=='filter': s.filter_frequencies(resps[rng.integers(0,4)], force_real=bool(rng.integers(0,2)))
            elif op=='buffers': s.set_buffers(leading=rng.choice([None,0,3e-9,10.4e-9]), trailing=rng.choice([None,0,5e-9]), force=bool(rng.integers(0,2)))
            elif op=='resample': s.resample(int(rng.integers(8,60)))
            elif op=='with_times':
                a=rng.integers(0,len(s.times)//2); b=rng.integers(len(s.times)//2+2,len(s.times)+1)
                s=s.with_times(s.times[a:b]) if rng.random()<0.6 else s.with_times(s.times[0]+np.arange(-5,len(s.times)+5)*s.dt)
            elif op=='add':
                o=FunctionSignal(np.array(s.times), funcs[rng.integers(0,4)], 'undefined')
                if rng.random()<0.5: o.filter_frequencies(resps[rng.integers(0,4)],force_real=True)
                s=s+o
            elif op=='copy': s=s.copy()
            elif op=='times': s.times=s.times[0]+np.arange(len(s.times))*s.dt*rng.choice([1,2])
        except Exception as e:
            viol.append((seed,h,list(log),'EXC',type(e).__name__,str(e)[:60])); break
        nops+=1
        if op!='read': mutated_since_read=True
        if op=='read' or rng.random()<0.5:
            if read_before and mutated_since_read: rmr+=1
            read_before=True; mutated_since_read=False
            try:
                v=np.array(s.values); e=eager(s); fv=np.array(fresh(s).values)
            except Exception as ex:
                viol.append((seed,h,list(log),'EXCREAD',type(ex).__name__,str(ex)[:50])); break
            sc=max(np.max(np.abs(e)),1e-30)
            if len(v)!=len(s.times) or np.max(np.abs(v-e))>1e-9*sc or np.max(np.abs(v-fv))>1e-12*sc:
                viol.append((seed,h,list(log),'DEV',float(np.max(np.abs(v-e))/sc),float(np.max(np.abs(v-fv))/sc))); break
print('histories',sys.argv[2],'ops',nops,'read-mutate-read',rmr,'violations',len(viol))
from collections import Counter
print(Counter((v[3],v[2][-1]) for v in viol))
for v in viol[:8]: print(v)
