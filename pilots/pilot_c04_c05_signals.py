# C04 + C05 prototypes
import numpy as np, sys, scipy.fft, copy
import pyrex
from pyrex.signals import *
np.seterr(all='ignore')
seed=int(sys.argv[1]); rng=np.random.default_rng(seed); np.random.seed(seed)
NH=int(sys.argv[2])
viol=[]
# ---------- C04: histories with alias graph and reference model
def snapshot(o):
    return (np.array(o.times).tobytes(), np.array(o.values).tobytes(), o.value_type)
def arrays_of(o):
    out=[o.times]
    if not isinstance(o,FunctionSignal): out.append(o.values)
    return [a for a in out if isinstance(a,np.ndarray)]
def lists_of(o):
    if isinstance(o,FunctionSignal):
        L=[o._functions,o._t0s,o._buffers,o._factors,o._filters]+list(o._buffers)+list(o._filters)
        return L
    return []
def mk(kind,times,vt):
    if kind=='S': return Signal(times,rng.normal(size=len(times)),vt)
    if kind=='E': return EmptySignal(times,vt)
    if kind=='F':
        f=FunctionSignal(times,[np.sin,np.cos,lambda t: np.exp(-t*t)][rng.integers(0,3)],vt)
        if rng.random()<0.4: f.filter_frequencies(lambda fr: 1/(1+1j*fr),force_real=True)
        return f
    if kind=='T':
        n=FFTThermalNoise(times,(0.05,0.3),rms_voltage=1.0); n.value_type=vt; return n
nops=0
for h in range(NH):
    N=int(rng.integers(3,20)); t=rng.uniform(-5,5)+np.arange(N)*1.0
    pool=[mk(rng.choice(list('SEFT')),t,rng.choice(['undefined','voltage'])) for _ in range(3)]
    args=[]   # arrays passed in by the "caller"
    for step in range(int(rng.integers(1,8))):
        op=rng.choice(['copy','with_times','add','sum','mul','rmul','div','imul','shift','construct'])
        a=pool[rng.integers(0,len(pool))]; b=pool[rng.integers(0,len(pool))]
        before=[snapshot(o) for o in pool]; argsnap=[x.copy() for x in args]
        res=None; inplace=None
        try:
            if op=='copy': res=a.copy(); exp=np.array(a.values)
            elif op=='with_times':
                nt=a.times[0]+rng.uniform(-2,2)+np.arange(int(rng.integers(2,15)))*rng.choice([1.0,0.5])
                args.append(nt); argsnap.append(nt.copy())
                res=a.with_times(nt)
                exp=None if isinstance(a,FunctionSignal) else np.interp(nt,a.times,a.values,left=0,right=0)
                if isinstance(a,EmptySignal): exp=np.zeros(len(nt))
                if len(res.times)!=len(nt) or not np.array_equal(res.times,nt): viol.append(('C04','with_times grid'))
            elif op=='add':
                if np.array_equal(a.times,b.times): res=a+b; exp=np.array(a.values)+np.array(b.values)
                else:
                    try: a+b; viol.append(('C04','different grids accepted'))
                    except ValueError: pass
                    continue
            elif op=='sum':
                grp=[o for o in pool if np.array_equal(o.times,a.times)]
                res=sum(grp); exp=sum(np.array(o.values) for o in grp)
                if len(grp)==1 and res is not grp[0]: viol.append(('C04','0+s is not s'))
                if len(grp)==1: res=None
            elif op=='mul': c=rng.normal(); res=a*c; exp=np.array(a.values)*c
            elif op=='rmul': c=rng.normal(); res=c*a; exp=np.array(a.values)*c
            elif op=='div': c=rng.uniform(0.5,2); res=a/c; exp=np.array(a.values)/c
            elif op=='imul':
                c=rng.normal(); exp=np.array(a.values)*c; idx=[i for i,o in enumerate(pool) if o is a]
                a*=c; inplace=idx
                if np.max(np.abs(np.array(a.values)-exp))>1e-12*max(1,np.max(np.abs(exp))): viol.append(('C04','imul value'))
            elif op=='shift':
                d=rng.uniform(-3,3); et=a.times+d; ev=np.array(a.values) if not isinstance(a,FunctionSignal) else None
                idx=[i for i,o in enumerate(pool) if o is a]; a.shift(d); inplace=idx
                if not np.allclose(a.times,et,rtol=0,atol=1e-12): viol.append(('C04','shift times'))
                if ev is not None and not np.array_equal(a.values,ev): viol.append(('C04','shift values changed'))
            elif op=='construct':
                nv=int(rng.integers(0,2*N)); vals=rng.normal(size=nv); tt=np.arange(N)*1.0
                res=Signal(tt,vals); exp=np.concatenate((vals,np.zeros(max(N-nv,0))))[:N]
                args+= [tt,vals]; argsnap+=[tt.copy(),vals.copy()]
        except Exception as e:
            viol.append(('C04','EXC '+op,type(e).__name__,str(e)[:50],type(a).__name__,type(b).__name__)); continue
        nops+=1
        # operands unchanged (except in-place target)
        for i,(o,s0) in enumerate(zip(pool,before)):
            if inplace is not None and i in inplace: continue
            if snapshot(o)!=s0: viol.append(('C04','operand changed by '+op,type(o).__name__))
        for x,x0 in zip(args,argsnap):
            if not np.array_equal(x,x0): viol.append(('C04','argument array changed by '+op))
        if res is not None:
            if len(res.values)!=len(res.times): viol.append(('C04','len mismatch '+op))
            if exp is not None and np.max(np.abs(np.array(res.values)-exp))>1e-10*max(1,np.max(np.abs(exp))): viol.append(('C04','value '+op,type(a).__name__,type(b).__name__))
            # alias graph
            for o in pool:
                for x in arrays_of(res):
                    for y in arrays_of(o):
                        if np.shares_memory(x,y): viol.append(('C04','array alias '+op,type(o).__name__))
                for x in lists_of(res):
                    for y in lists_of(o):
                        if x is y: viol.append(('C04','list alias '+op))
            for x in arrays_of(res):
                for y in args:
                    if np.shares_memory(x,y): viol.append(('C04','alias with argument '+op, type(a).__name__))
            # mutate result, others must not move
            snaps=[snapshot(o) for o in pool]; asn=[x.copy() for x in args]
            try:
                res.shift(0.25); res*=1.5
                if not isinstance(res,(FunctionSignal,EmptySignal)): res.values[0]+=1
            except Exception as e: viol.append(('C04','EXC mutate result',type(e).__name__,op))
            for o,s0 in zip(pool,snaps):
                if snapshot(o)!=s0: viol.append(('C04','mutating result moved operand '+op,type(o).__name__))
            for x,x0 in zip(args,asn):
                if not np.array_equal(x,x0): viol.append(('C04','mutating result moved argument '+op))
            pool[rng.integers(0,len(pool))]=res
print('C04 ops',nops,'violations',sum(1 for v in viol if v[0]=='C04'))
# ---------- C05
def ref_filter(vals,dt,H,force_real):
    N=len(vals); fr=scipy.fft.fftfreq(2*N,d=dt)
    if force_real:
        h=np.array([complex(H(abs(x))) for x in fr]); h=np.where(fr<0,np.conj(h),h)
    else: h=np.array([complex(H(x)) for x in fr])
    return np.real(scipy.fft.ifft(h*scipy.fft.fft(np.concatenate((vals,np.zeros(N))))))[:N]
n5=0
for it in range(NH):
    N=int(rng.choice([2,3,4,5,8,17,64,255])); dt=10**rng.uniform(-10,0); off=rng.choice([0,1,1e3])*rng.uniform(-1,1)*N*dt
    t=off+np.arange(N)*dt; v=rng.normal(size=N); v2=rng.normal(size=N)
    fc=rng.uniform(0.05,0.4)/dt
    kind=rng.integers(0,6); m=int(rng.integers(0,N+1))
    H=[lambda f: 1/(1+1j*f/fc), lambda f: np.where(np.abs(f)<fc,1.0,0.0)+0j, lambda f: np.exp(-2j*np.pi*f*m*dt), lambda f: complex(1/(1+(float(f)/fc)**2)), lambda f: 1.0+0*np.asarray(f), lambda f: 0.3*np.exp(-(np.asarray(f)/fc)**2)][kind]
    fr_=bool(rng.integers(0,2)) or kind==2
    n5+=1
    try:
        s=Signal(t,v); s.filter_frequencies(H,force_real=fr_); out=np.array(s.values)
        dts=t[1]-t[0]; ref=ref_filter(v,dts,H,fr_); sc=max(np.max(np.abs(v)),1e-300)
        if np.max(np.abs(out-ref))>1e-9*sc: viol.append(('C05','reference filter',kind,N,float(np.max(np.abs(out-ref))/sc)))
        a_,b_=rng.normal(size=2)
        s2=Signal(t,v2); s2.filter_frequencies(H,force_real=fr_); s3=Signal(t,a_*v+b_*v2); s3.filter_frequencies(H,force_real=fr_)
        if np.max(np.abs(s3.values-(a_*out+b_*s2.values)))>1e-9*sc*(abs(a_)+abs(b_)+1): viol.append(('C05','linearity',kind))
        s4=Signal(t,v); s4.filter_frequencies(lambda f: 2.5*H(f),force_real=fr_)
        if np.max(np.abs(s4.values-2.5*out))>1e-9*sc: viol.append(('C05','homogeneity',kind))
        s5=Signal(t,v); s5.filter_frequencies(lambda f: 1.0+0*np.asarray(f),force_real=fr_)
        if np.max(np.abs(s5.values-v))>1e-10*sc: viol.append(('C05','identity',N))
        s6=Signal(np.arange(N)*dt,v); s6.filter_frequencies(H,force_real=fr_)
        cond=4*np.finfo(float).eps*abs(off)/dt*50
        if np.max(np.abs(s6.values-out))>(1e-9+cond)*sc: viol.append(('C05','grid position',kind,float(np.max(np.abs(s6.values-out))/sc),off/dt))
        if kind in (1,4,5) or kind==0:
            if np.sum(out**2)>np.sum(v**2)*(1+1e-9): viol.append(('C05','passivity',kind))
        if kind==2:
            exp=np.concatenate((np.zeros(m),v))[:N]
            cond=4*np.finfo(float).eps*abs(off)/dt*2*np.pi*m
            if np.max(np.abs(out-exp))>(1e-9+cond)*sc: viol.append(('C05','delay',m,N))
    except Exception as e:
        viol.append(('C05','EXC',kind,type(e).__name__,str(e)[:60]))
print('C05 cases',n5,'violations',sum(1 for v in viol if v[0]=='C05'))
from collections import Counter
print(Counter(v[:2] for v in viol).most_common(12))
for v in viol[:6]: print(v)
