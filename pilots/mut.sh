#!/bin/bash
# usage: mut.sh <file-relative-to-pyrex> <old> <new> -- <command...>   (applies to a copy of fx)
f="$1"; old="$2"; new="$3"; shift 4
rm -rf /tmp/scratch/mu; cp -r /tmp/scratch/fx /tmp/scratch/mu
/venv/bin/python - "$f" "$old" "$new" <<'PY'
import sys
f,old,new=sys.argv[1:4]
p='/tmp/scratch/mu/pyrex/'+f; s=open(p).read()
assert s.count(old)>=1,('pattern not found',old)
open(p,'w').write(s.replace(old,new,1))
PY
[ $? -ne 0 ] && { echo "PATCH FAILED"; exit 9; }
PYTHONPATH=/tmp/scratch/mu:/tmp/scratch/exp "$@"
