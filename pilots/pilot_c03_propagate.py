# C03 pilot: propagate across tracers
import numpy as np, sys, scipy.fft
import pyrex
from pyrex.signals import *
from pyrex.ice_model import *
from pyrex.ray_tracing import *
from pyrex.custom.layered_ice import *
np.seterr(all='ignore')
seed=int(sys.argv[1]); rng=np.random.default_rng(seed)
class UT2(UniformRayTracer): max_reflections=2
viol=[]; kf=[]; n=0; stats={}
def mkpaths():
    k=rng.integers(0,5)
    if k==0: ice=AntarcticIce(); T=SpecializedRayTracer
    elif k==1: ice=GreenlandIce(); T=SpecializedRayTracer
    elif k==2: ice=ArasimIce(); T=BasicRayTracer
    elif k==3: ice=UniformIce(rng.uniform(1.3,1.8),valid_range=(-rng.uniform(500,2000),0),index_above=1,index_below=rng.choice([None,1.9,1.2])); T=UT2
    else:
        zb=-rng.uniform(50,400)
        ice=LayeredIce([UniformIce(rng.uniform(1.3,1.5),valid_range=(zb,0),index_above=1,index_below=None), AntarcticIce(valid_range=(-2000,zb))]); T=LayeredRayTracer
    zlo=-1900 if k!=3 else ice.valid_range[0]+1
    a=np.array([rng.uniform(-500,500),rng.uniform(-500,500),rng.uniform(zlo,-1)]); rho=10**rng.uniform(1,3.2); ph=rng.uniform(0,2*np.pi)
    b=np.array([a[0]+rho*np.cos(ph),a[1]+rho*np.sin(ph),rng.uniform(max(zlo,-400),-1)])
    return k,ice,T(a,b,ice).solutions
for it in range(int(sys.argv[2])):
    try: k,ice,sols=mkpaths()
    except Exception as e:
        viol.append(('EXC trace',type(e).__name__,str(e)[:60])); continue
    for p in sols:
        N=int(rng.choice([16,33,128,257])); dt=rng.choice([1e-10,1e-9,3e-9]); t0=rng.uniform(-1e-7,1e-7)
        s=Signal(t0+np.arange(N)*dt, rng.normal(size=N), 'field'); s2=Signal(s.times, rng.normal(size=N),'field')
        pol=rng.normal(size=3); ai=rng.choice([None,0.1,0.37]) 
        kw=dict(attenuation_interpolation=ai)
        n+=1; stats[k]=stats.get(k,0)+1
        try:
            before=(s.times.copy(),s.values.copy())
            (ss,sp),(us,up)=p.propagate(signal=s,polarization=pol,**kw)
            if not (np.array_equal(s.times,before[0]) and np.array_equal(s.values,before[1])): viol.append((k,'input mutated'))
            if not np.array_equal(ss.times, s.times+p.tof) or not np.array_equal(sp.times,s.times+p.tof): viol.append((k,'time grid',float(np.max(np.abs(ss.times-(s.times+p.tof))))))
            # linearity
            a_,b_=rng.normal(size=2)
            comb=Signal(s.times, a_*s.values+b_*s2.values,'field')
            (cs,cp),_=p.propagate(signal=comb,polarization=pol,**kw); (s2s,s2p),_=p.propagate(signal=s2,polarization=pol,**kw)
            sc=max(np.max(np.abs(cs.values)),np.max(np.abs(cp.values)),1e-300)
            lin=max(np.max(np.abs(cs.values-(a_*ss.values+b_*s2s.values))),np.max(np.abs(cp.values-(a_*sp.values+b_*s2p.values))))/sc
            if lin>1e-9: viol.append((k,'linearity',lin))
            # polarization linearity
            (qs,qp),_=p.propagate(signal=s,polarization=2.5*pol,**kw)
            if max(np.max(np.abs(qs.values-2.5*ss.values)),np.max(np.abs(qp.values-2.5*sp.values)))/sc>1e-9: viol.append((k,'pol linearity'))
            # energy
            ein=np.sum(s.values**2)*np.dot(pol,pol); eout=np.sum(ss.values**2)+np.sum(sp.values**2)
            fr=np.abs(np.array(p.fresnel,dtype=complex))
            if eout>ein*(1+1e-9): viol.append((k,'energy gain',eout/ein, fr.tolist()))
            if np.any(fr>1+1e-12): (viol if k!=4 else kf).append((k,'fresnel>1',fr.tolist()))
            # attenuation
            f=np.array([0.0,1e7,1e8,3e8,1e9,3e9]); att=p.attenuation(f); attn=p.attenuation(-f)
            if not (np.all(att>=0) and np.all(att<=1+1e-12) and np.all(np.diff(att)<=1e-12) and np.allclose(att,attn,rtol=1e-12)): viol.append((k,'attenuation',att.tolist()))
            # pol vectors
            rd=p.received_direction
            chk=[abs(np.linalg.norm(us)-1),abs(np.linalg.norm(up)-1),abs(np.dot(us,up)),abs(np.dot(us,rd)),abs(np.dot(up,rd))]
            if max(chk)>1e-9: viol.append((k,'pol vectors',[float(x) for x in chk], p.emitted_direction.tolist(), rd.tolist()))
            # spectrum ratio (no interpolation): out_s spectrum = att(|f|)*r_s*pol_s*in spectrum on 2N grid
            if ai is None:
                M=2*N; fr2=scipy.fft.fftfreq(M,d=dt); H=p.attenuation(np.abs(fr2))*p.fresnel[0]
                H=np.where(fr2<0,np.conj(H),H)+0j
                u_s0=np.cross(p.emitted_direction,[0,0,1]); u_s0=u_s0/np.linalg.norm(u_s0) if np.linalg.norm(u_s0)>0 else u_s0
                pin=np.concatenate((s.values*np.dot(pol,u_s0),np.zeros(N)))
                # code clamps the Nyquist bin to the last positive FFT frequency
                Hc=H.copy()
                if k in (0,1,2): Hc[N]=np.conj(p.attenuation(np.array([np.max(fr2)]))[0]*p.fresnel[0])
                exp=np.real(scipy.fft.ifft(Hc*scipy.fft.fft(pin)))[:N]
                dv=np.max(np.abs(exp-ss.values))/max(np.max(np.abs(exp)),1e-300)
                if dv>1e-8: viol.append((k,'spectrum model',float(dv),N,dt))
        except Exception as e:
            viol.append((k,'EXC',type(e).__name__,str(e)[:70]))
print('paths',n,stats,'violations',len(viol),'known',len(kf))
from collections import Counter
print(Counter((v[0],v[1]) for v in viol))
for v in viol[:10]: print(v)
