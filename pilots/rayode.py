import numpy as np
from scipy.integrate import solve_ivp
from scipy.optimize import brentq
C = 299792458.0
def trace_to_length(n, dn, ztop, src_z, emitted, L, rtol=1e-11):
    """Arc-length ray ODE from depth src_z along `emitted` for exactly length L (specular reflection at ztop).
    Grazing reflections are not missed: a turn (p_z=0) is a terminal event too; if it happens above ztop the
    dense output is bisected for the first crossing of ztop and the leg is restarted from there.
    Returns rho, z, T, dir_rho, dir_z, n_reflections, n_turns."""
    sin0 = np.hypot(emitted[0], emitted[1]); cos0 = emitted[2]
    pr = n(src_z)*sin0; pz = n(src_z)*cos0
    def rhs(s, y):
        r,z,pz,T = y; nn = n(z)
        return [pr/nn, pz/nn, dn(z), nn/C]
    def hit_top(s,y): return y[1]-ztop
    hit_top.terminal=True; hit_top.direction=1
    def turn(s,y): return y[2]
    turn.terminal=True; turn.direction=-1
    state=[0.0,src_z,pz,0.0]; s_done=0.0; nrefl=0; nturn=0
    for leg in range(40):
        rem=L-s_done
        if rem<=0: break
        sol = solve_ivp(rhs, [0, rem], state, events=[hit_top, turn], rtol=rtol, atol=1e-10, method='DOP853', max_step=max(L/100,1e-3), dense_output=True)
        y=sol.y[:,-1]
        if sol.status==1 and len(sol.t_events[0])>0:
            s_done += sol.t[-1]; nrefl+=1; state=[y[0], ztop, -abs(y[2]), y[3]]; continue
        if sol.status==1 and len(sol.t_events[1])>0:
            st=sol.t[-1]
            if y[1]>ztop:     # turned above the surface: a grazing reflection was stepped over
                f=lambda s: sol.sol(s)[1]-ztop
                # last time below before st
                ss=np.linspace(0,st,2001); zz=sol.sol(ss)[1]-ztop
                idx=np.where((zz[:-1]<=0)&(zz[1:]>0))[0]
                sc=brentq(f, ss[idx[0]], ss[idx[0]+1], xtol=1e-12)
                yc=sol.sol(sc); s_done+=sc; nrefl+=1; state=[yc[0], ztop, -abs(yc[2]), yc[3]]; continue
            nturn+=1; s_done+=st; state=[y[0],y[1],-1e-300,y[3]]   # continue downward past the turning point
            # nudge: pz exactly 0 -> derivative dn/dz<0 makes it negative immediately
            state[2]=min(y[2],0.0)-0.0
            # take a tiny explicit step to leave the event surface
            h=min(1e-6, (L-s_done)/2) if L-s_done>0 else 0
            if h>0:
                k=rhs(0,state); state=[state[i]+h*k[i] for i in range(4)]; s_done+=h
            continue
        s_done = L; state=list(y); break
    r,z,pz,T = state; nn=n(z)
    return r,z,T,pr/nn,pz/nn,nrefl,nturn
