# C10 pilot: kernel configuration matrix with recorders (post-fix)
import numpy as np, sys, os, tempfile, shutil
import pyrex
from pyrex.ice_model import *
from pyrex.ray_tracing import *
from pyrex.askaryan import *
from pyrex.custom.layered_ice import *
from pyrex.generation import *
from pyrex.particle import *
from pyrex.kernel import EventKernel
from pyrex.antenna import *
from pyrex.detector import AntennaSystem
from pyrex.signals import EmptySignal
from pyrex.io import File
np.seterr(all='ignore')
seed=int(sys.argv[1]); rng=np.random.default_rng(seed); np.random.seed(seed)
d=tempfile.mkdtemp(dir='/tmp/scratch')
class RecAnt(Antenna):
    def __init__(self,*a,**k): super().__init__(*a,**k); self.log=[]
    def receive(self, signal, direction=None, polarization=None, force_real=False):
        sigs=signal if hasattr(signal,'__len__') else [signal]
        self.log.append(dict(times=[np.array(s.times) for s in sigs], vals=[np.array(s.values) for s in sigs], types=[s.value_type for s in sigs], direction=None if direction is None else np.array(direction), pol=polarization))
        return super().receive(signal,direction=direction,polarization=polarization,force_real=force_real)
class Sys(AntennaSystem):
    def __init__(self,pos): super().__init__(RecAnt); self.setup_antenna(position=pos,noisy=False); self.position=self.antenna.position
class RecWriter:
    is_open=True; has_detector=True
    def __init__(self): self.adds=[]
    def create_analysis_metadataset(self,*a,**k): pass
    def add_analysis_metadata(self,*a,**k): pass
    def add(self, **kw): self.adds.append(kw)
uni=UniformIce(1.6,valid_range=(-2850,0),index_above=1,index_below=None)
lay=LayeredIce([AntarcticIce(valid_range=(-500,0),index_above=1,index_below=None),AntarcticIce(valid_range=(-2850,-500),index_above=None,index_below=None)])
class UT1(UniformRayTracer): max_reflections=1
combos=[(SpecializedRayTracer,pyrex.ice),(BasicRayTracer,ArasimIce()),(SpecializedRayTracer,GreenlandIce()),(UT1,uni),(LayeredRayTracer,lay)]
viol=[]; nev=0; nrecv=0; nempty=0; nskip=0
for it in range(int(sys.argv[2])):
    tr,ice=combos[rng.integers(0,len(combos))]
    sm=[ARZAskaryanSignal,AVZAskaryanSignal,ZHSAskaryanSignal][rng.integers(0,3)]
    nant=int(rng.integers(1,4))
    use_sys=rng.random()<0.3
    ants=[(Sys if use_sys else (lambda p: RecAnt(p,noisy=False)))((float(rng.uniform(-50,50)),float(rng.uniform(-50,50)),-float(rng.uniform(20,400)))) for _ in range(nant)]
    getlog=(lambda a: a.antenna.log) if use_sys else (lambda a: a.log)
    parts=[]
    for k in range(int(rng.integers(1,4))):
        p=Particle(rng.choice(['nu_e','nu_mu','nu_tau_bar']),(rng.uniform(-800,800),rng.uniform(-800,800),-rng.uniform(50,2000)),rng.normal(size=3),10**rng.uniform(6,10))
        p.survival_weight=rng.choice([1.0,0.5,1e-3]); p.interaction_weight=rng.choice([1.0,1e-2,1e-6])
        parts.append(p)
    ev=Event(parts[0])
    if len(parts)>1: ev.add_children(parts[0],parts[1:])
    gen=ListGenerator([ev])
    off=rng.choice([None,40,5,0]); wm=[None,1e-4,(0.4,1e-3)][rng.integers(0,3)]; ai=rng.choice([None,0.1])
    wr=RecWriter() if rng.random()<0.5 else None
    trig_calls=[]
    def tfun(dets): trig_calls.append(1); return any(a.is_hit for a in dets)
    triggers=[None,tfun,{'global':tfun,'x':lambda d: False}][rng.integers(0,3)]
    times=np.linspace(-20e-9,80e-9,int(rng.choice([256,501])),endpoint=False)
    try:
        kern=EventKernel(gen,ants,ice_model=ice,ray_tracer=tr,signal_model=sm,signal_times=times,event_writer=wr,triggers=triggers,offcone_max=off,weight_min=wm,attenuation_interpolation=ai)
        ret=kern.event()
    except Exception as e:
        viol.append(('EXC',tr.__name__,sm.__name__,type(e).__name__,str(e)[:80])); continue
    nev+=1
    # oracle
    retev = ret if triggers is None else ret[0]
    if retev is not ev: viol.append(('event identity',))
    exp=[[] for _ in ants]
    for p in ev:
        if isinstance(wm,tuple):
            if p.survival_weight<wm[0] or p.interaction_weight<wm[1]: nskip+=1; continue
        elif wm is not None and p.weight<wm: nskip+=1; continue
        for i,a in enumerate(ants):
            rt=tr(p.vertex,a.position,ice_model=ice)
            if not rt.exists: continue
            thc=np.arccos(1/ice.index(p.vertex[2]))
            for path in rt.solutions:
                psi=np.arccos(np.vdot(p.direction,path.emitted_direction))
                offc = (np.radians(180) if off is None else np.radians(off))
                exp[i].append((path.tof, abs(psi-thc)>offc, path))
    for i,a in enumerate(ants):
        lg=getlog(a)
        if len(lg)!=len(exp[i]): viol.append(('receive count',tr.__name__,len(lg),len(exp[i]))); continue
        for rec,(tof,offcone,path) in zip(lg,exp[i]):
            nrecv+=1
            for t in rec['times']:
                if not np.array_equal(t, times+tof): viol.append(('grid',tr.__name__,float(np.max(np.abs(t-(times+tof))))))
            allzero=all(np.all(v==0) for v in rec['vals'])
            if offcone:
                nempty+=1
                if not allzero: viol.append(('offcone not empty',tr.__name__,sm.__name__))
            # direction given equals received_direction unless empty signal
            if not offcone and (rec['direction'] is None or np.max(np.abs(rec['direction']-path.received_direction))>1e-12): viol.append(('direction',tr.__name__))
        if wr is not None:
            kw=wr.adds[-1]
            if len(kw['ray_paths'][i])!=len(lg) or len(kw['polarizations'][i])!=len(lg): viol.append(('writer alignment',tr.__name__,len(kw['ray_paths'][i]),len(lg)))
            else:
                for rp,(tof,_,_) in zip(kw['ray_paths'][i],exp[i]):
                    if rp.tof!=tof: viol.append(('writer path order',))
    if wr is not None and len(wr.adds)!=1: viol.append(('writer add count',len(wr.adds)))
    if triggers is not None:
        exp_tr=any(a.is_hit for a in ants)
        if ret[1]!=exp_tr: viol.append(('trigger result',))
shutil.rmtree(d)
print('events',nev,'receives',nrecv,'offcone',nempty,'skipped particles',nskip,'violations',len(viol))
from collections import Counter
print(Counter(v[:3] for v in viol))
for v in viol[:8]: print(v)
