# C11/C12 pilot: random option sets and add sequences vs shadow model, all access paths
import numpy as np, sys, os, tempfile, shutil, itertools, traceback
import pyrex
from pyrex.io import File
from pyrex.particle import *
from pyrex.antenna import Antenna
from pyrex.signals import Signal
np.seterr(all='ignore')
seed=int(sys.argv[1]); rng=np.random.default_rng(seed); np.random.seed(seed)
d=tempfile.mkdtemp(dir='/tmp/scratch')
class FakePath:
    def __init__(s, v): s.v=v
    @property
    def _metadata(s): return {"tof": float(s.v), "path_length": 2.0*s.v+0.5}
class TA(Antenna):
    def trigger(self, signal): return bool(np.max(np.abs(signal.values))>50)
KEYS=["particles","triggers","antenna_triggers","waveforms","rays","noise"]
viol=[]; nfiles=int(sys.argv[2]); stats=dict(files=0,events=0,rejected=0,paths=0)
def run_file(fi):
    nant=int(rng.integers(1,4))
    noisy=bool(rng.integers(0,2))
    ants=[TA((0,0,-100-10*i),noisy=noisy,freq_range=(1e8,3e8),noise_rms=1.0) for i in range(nant)]
    opts={k:bool(rng.integers(0,2)) for k in KEYS}
    if opts['antenna_triggers'] and not opts['triggers']: opts['triggers']=True
    rt_kind=rng.integers(0,3)
    if rt_kind==0: req=True
    elif rt_kind==1: req=False
    else: req=[k for k in KEYS if rng.random()<0.4]
    if isinstance(req,bool):
        trig_only={k:req for k in KEYS}
        if req:
            for k in ("particles","triggers","antenna_triggers"): trig_only[k]=False
    else: trig_only={k:(k in req) for k in KEYS}
    if not opts['particles']: opts['particles']=True   # quantifier: option sets that record particles
    fn=os.path.join(d,'f%d.h5'%fi)
    w=File(fn,'w',write_particles=opts['particles'],write_triggers=opts['triggers'],write_antenna_triggers=opts['antenna_triggers'],
           write_rays=opts['rays'],write_noise=opts['noise'],write_waveforms=opts['waveforms'],require_trigger=req)
    w.open(); w.set_detector(ants)
    model=[]; nev=int(rng.integers(0,9))
    i=0; uid=0
    for _ in range(nev):
        npart=int(rng.integers(1,4))
        ps=[Particle(rng.choice(['nu_e','nu_mu_bar','nu_tau']),(i,k,-100-k),(0,0,1),1e6*(i+1)+k,interaction_type=rng.choice(['cc','nc'])) for k in range(npart)]
        evn=Event(ps)
        nr=[int(rng.integers(0,3)) for _ in ants]
        for ai,a in enumerate(ants):
            a.clear()
            for r in range(nr[ai]):
                a.receive(Signal(np.arange(6)*1e-9+i*1e-6+r*1e-7, np.ones(6)*(100*((i+r+ai)%2)+i+0.01*r+0.001*ai+1), Signal.Type.voltage))
        rp=[[FakePath(1000*i+10*ai+r+1) for r in range(nr[ai])] for ai in range(nant)]
        pol=[[(1+i,ai,r) for r in range(nr[ai])] for ai in range(nant)]
        for a in ants: a.all_waveforms
        glob=bool(rng.integers(0,2))
        tk=rng.integers(0,3); maxw=max(nr) if nr else 0
        if tk==0: trig=glob
        elif tk==1: trig={'global':glob,'extra':bool(rng.integers(0,2))}
        else: trig={'global':glob,'perwave':[bool(rng.integers(0,2)) for _ in range(maxw)],'extra':bool(rng.integers(0,2))}
        # maybe a rejected add first
        if rng.random()<0.25:
            bad=rng.integers(0,4)
            try:
                if bad==0: w.add(evn, triggered=trig, ray_paths=[[]]*(nant+1), polarizations=[[]]*(nant+1))
                elif bad==1: w.add(evn, triggered={'nope':True}, ray_paths=rp, polarizations=pol)
                elif bad==2: w.add(evn, triggered=None, ray_paths=None, polarizations=None)
                else: w.add(evn, triggered={'global':glob,'perwave':[True]*(max(maxw-1,0))} if maxw>0 else "str", ray_paths=rp, polarizations=pol)
                accepted_bad=True
            except Exception as e:
                accepted_bad=False; stats['rejected']+=1
            if accepted_bad:
                # an add that was accepted although we meant it as bad: it is a real event then; model it minimal -> skip file
                return 'skip'
        try:
            w.add(evn, triggered=trig, ray_paths=rp, polarizations=pol, events_thrown=2)
        except Exception as e:
            return ('EXC add', opts, req, type(e).__name__, str(e)[:80])
        T=glob
        rec=dict(energies=[p.energy for p in ps], kinds=[p.interaction.kind.name for p in ps])
        if trig_only['particles'] and not glob: rec['energies']=[]; rec['kinds']=[]
        rec['triggered']= T if opts['triggers'] and (not trig_only['triggers'] or T) else None
        rec['rays']= [[rp[ai][r].v if r<nr[ai] else 0.0 for ai in range(nant)] for r in range(maxw)] if opts['rays'] and (not trig_only['rays'] or T) else None
        rec['waves']= [[ (ants[ai].all_waveforms[r].times.copy(), np.array(ants[ai].all_waveforms[r].values)) if r<nr[ai] else None for ai in range(nant)] for r in range(maxw)] if opts['waveforms'] and (not trig_only['waveforms'] or T) else None
        rec['noise']= [ (a._noise_master.freqs.copy(),a._noise_master.amps.copy(),a._noise_master.phases.copy()) if a._noise_master is not None else None for a in ants] if opts['noise'] and (not trig_only['noise'] or T) else None
        inc_ant = opts['antenna_triggers'] and (not trig_only['antenna_triggers'] or T)
        comps=None
        if rec['triggered'] is not None and (inc_ant or isinstance(trig,dict)):
            comps={}
            if inc_ant:
                for ai,a in enumerate(ants): comps['antenna_%d'%ai]=[a.trigger(wv) for wv in a.all_waveforms]
            if isinstance(trig,dict):
                for k,v in trig.items():
                    if k!='global': comps[k]= v if isinstance(v,bool) else list(v)
        rec['comps']=comps; rec['maxw']=maxw
        model.append(rec); i+=1
    w.close()
    stats['files']+=1; stats['events']+=len(model)
    # ---- read back
    def getrec(e):
        out={}
        pi=e.get_particle_info()
        out['energies']=[p['energy'] for p in pi] if len(pi)>0 else []; out['kinds']=[p['interaction_name'] for p in pi] if len(pi)>0 else []
        try: out['triggered']= None if e.triggered is None else bool(e.triggered)
        except ValueError: out['triggered']='NOTSAVED'
        try:
            r=e.get_rays_info('tof'); out['rays']= np.array(r).tolist() if len(r)>0 else []
        except ValueError: out['rays']='NOTSAVED'
        try:
            wv=e.get_waveforms(); out['waves']=wv
        except ValueError: out['waves']='NOTSAVED'
        try: out['noise']=e.noise_bases
        except ValueError: out['noise']='NOTSAVED'
        try: out['comps']=sorted(e.get_triggered_components())
        except ValueError: out['comps']='NOTSAVED'
        return out
    def cmp(m, o, where):
        if m['energies']!=o['energies'] or m['kinds']!=o['kinds']: return where+' particles %s vs %s'%(m['energies'],o['energies'])
        if m['triggered'] is None:
            if o['triggered'] not in (None,'NOTSAVED'): return where+' trigger should be absent'
        elif o['triggered']!=m['triggered']: return where+' trigger %s vs %s'%(m['triggered'],o['triggered'])
        if m['rays'] is None or m['maxw']==0:
            if o['rays'] not in ([], 'NOTSAVED'): return where+' rays should be absent: %s'%o['rays']
        elif o['rays']!=m['rays']: return where+' rays %s vs %s'%(m['rays'],o['rays'])
        if m['waves'] is None or m['maxw']==0:
            if not (isinstance(o['waves'],str) or len(o['waves'])==0): return where+' waves should be absent'
        else:
            wv=o['waves']
            if isinstance(wv,str) or len(wv)!=m['maxw']: return where+' waves count'
            for r in range(m['maxw']):
                for ai in range(nant):
                    mm=m['waves'][r][ai]
                    if mm is None:
                        if len(wv[r][ai][0])!=0: return where+' wave should be empty'
                    else:
                        if not (np.array_equal(wv[r][ai][0],mm[0]) and np.allclose(wv[r][ai][1],mm[1],rtol=0,atol=0)): return where+' wave data r%d a%d'%(r,ai)
        if m['noise'] is None:
            if not (isinstance(o['noise'],str) or len(o['noise'])==0): return where+' noise should be absent'
        else:
            nb=o['noise']
            if isinstance(nb,str) or len(nb)!=nant: return where+' noise count'
            for ai in range(nant):
                if m['noise'][ai] is None:
                    if len(nb[ai][0])!=0: return where+' noise should be empty'
                elif not all(np.array_equal(nb[ai][j],m['noise'][ai][j]) for j in range(3)): return where+' noise data'
        if m['comps'] is not None and m['maxw']>0 and not isinstance(o['comps'],str):
            expc=sorted(k for k,v in m['comps'].items() if (v if isinstance(v,bool) else any(v[:m['maxw']])))
            if o['comps']!=expc: return where+' comps %s vs %s'%(expc,o['comps'])
        return None
    with File(fn,'r') as f:
        n=len(f)
        if n!=len(model): return ('len %d vs accepted %d'%(n,len(model)), opts, req)
        if n==0: return None
        base=[getrec(e) for e in f]
        for k,(m,o) in enumerate(zip(model,base)):
            err=cmp(m,o,'seq[%d]'%k)
            if err: return (err, opts, req)
    # access paths
    def same(a,b):
        return cmp(dict(energies=a['energies'],kinds=a['kinds'],triggered=None if a['triggered'] in (None,'NOTSAVED') else a['triggered'],rays=None,waves=None,noise=None,comps=None,maxw=0), dict(b, rays=[] , waves='NOTSAVED', noise='NOTSAVED'), 'x') is None and str(a['rays'])==str(b['rays']) and str(a['comps'])==str(b['comps'])
    for sr in (1,2,3,None):
        with File(fn,'r',slice_range=sr) as f:
            stats['paths']+=1
            got=[getrec(e) for e in f]
            if len(got)!=n or not all(same(a,b) for a,b in zip(base,got)): return ('iter slice_range=%s differs'%sr, opts, req)
            for idx in list(range(-n,n)):
                g=getrec(f[idx])
                if not same(base[idx%n],g): return ('index %d differs'%idx, opts, req)
            for _ in range(6):
                a=int(rng.integers(0,n)); b=int(rng.integers(a+1,n+1)); st=int(rng.integers(1,4))
                spell=rng.integers(0,3)
                aa=a-n if spell==1 else a; bb=b-n if (spell==2 and b<n) else b
                try: got=[getrec(e) for e in f[aa:bb:st]]
                except Exception as e: return ('slice [%d:%d:%d] EXC %s %s'%(aa,bb,st,type(e).__name__,str(e)[:40]), opts, req)
                exp=base[a:b:st]
                if len(got)!=len(exp) or not all(same(x,y) for x,y in zip(exp,got)): return ('slice [%d:%d:%d] sr=%s differs'%(aa,bb,st,sr), opts, req)
    return None
for fi in range(nfiles):
    try: r=run_file(fi)
    except Exception as e:
        r=('HARNESS/EXC '+type(e).__name__+' '+str(e)[:80], traceback.format_exc().splitlines()[-3:])
    if r and r!='skip': viol.append((fi,)+tuple(r))
shutil.rmtree(d)
print(stats,'violations',len(viol))
from collections import Counter
print(Counter(v[1][:30] for v in viol))
for v in viol[:10]: print(v)
