# C09 pilot: random histories on Antenna / AntennaSystem vs shadow model
import numpy as np, sys
import pyrex
from pyrex.signals import *
from pyrex.antenna import Antenna, DipoleAntenna
from pyrex.detector import AntennaSystem
np.seterr(all='ignore')
seed=int(sys.argv[1]); rng=np.random.default_rng(seed); np.random.seed(seed)
class ThrAnt(Antenna):
    thr=0.8
    def trigger(self, signal): return bool(np.max(np.abs(signal.values))>self.thr)
class DelaySys(AntennaSystem):
    lead_in_time=25e-9
    def __init__(self, ant, nd, gain, dt):
        super().__init__(ant); self.position=ant.position; self.nd=nd; self.gain=gain; self._dt=dt
    def front_end(self, sig):
        c=sig.copy(); tau=self.nd*sig.dt
        c.filter_frequencies(lambda f: self.gain*np.exp(-2j*np.pi*f*tau), force_real=True); return c
viol=[]; nh=int(sys.argv[2]); qrq=0; evals=0
for h in range(nh):
    noisy=bool(rng.integers(0,2)); dt=1e-9
    base=ThrAnt((0,0,-100),noisy=noisy,freq_range=(5e7,4e8),noise_rms=0.2,unique_noise_waveforms=int(rng.integers(1,6)))
    kind=rng.choice(['ant','sys0','sysd'])
    if kind=='ant': obj=base; nd=0; gain=1.0
    elif kind=='sys0': obj=DelaySys(base,0,1.0,dt); obj.lead_in_time=0; nd=0; gain=1.0
    else: nd=int(rng.integers(1,20)); gain=rng.uniform(0.5,2); obj=DelaySys(base,nd,gain,dt)
    model=[]   # received processed signals (times, values)
    epoch=0; noise_obs={}
    log=[]
    def expected(times):
        times=np.asarray(times)
        if nd==0:
            return gain*sum((np.interp(times,t,v,left=0,right=0) for t,v in model), np.zeros(len(times)))
        # own lead-in grid: nd<=25 samples before the window with the window's dt, built by index
        step=times[1]-times[0]
        ext=np.concatenate((times[0]+np.arange(-nd,0)*step, times))
        S=sum((np.interp(ext,t,v,left=0,right=0) for t,v in model), np.zeros(len(ext)))
        return gain*S[:len(times)]
    def check_wave(w, times, tag):
        global evals
        evals+=1
        if len(w.times)!=len(times) or not np.array_equal(w.times,times): return tag+' grid'
        e0=expected(times)
        # set-valued reference at signal edges: a query time within a few ulp of a signal's first/last sample may
        # legitimately see either the edge value or 0
        lo=e0.copy(); hi=e0.copy()
        step=times[1]-times[0]
        for (t,v) in model:
            for edge_t,edge_v in ((t[0],v[0]),(t[-1],v[-1])):
                k=np.where(np.abs((np.asarray(times)-nd*step)-edge_t)<=8*np.finfo(float).eps*max(abs(edge_t),abs(times[0]),abs(times[-1]),1e-300)*4+1e-22)[0]
                for i in k:
                    lo[i]=min(lo[i],e0[i]-gain*edge_v,e0[i]+gain*edge_v,e0[i]); hi[i]=max(hi[i],e0[i]-gain*edge_v,e0[i]+gain*edge_v,e0[i])
        wv=np.asarray(w.values)
        resid=np.where(wv<lo,wv-lo,np.where(wv>hi,wv-hi,0.0)) if not noisy else wv-e0
        edge_idx=set(np.where(hi>lo)[0].tolist())
        if not noisy:
            if np.max(np.abs(resid))>1e-9:
                bad=np.where(np.abs(resid)>1e-9)[0]
                return tag+' value dev %.3g badidx %s of %d win[%g,%g]ns sigs %s'%(np.max(np.abs(resid)), bad[:5].tolist()+bad[-2:].tolist(), len(times), times[0]*1e9, times[-1]*1e9, [(round(t[0]*1e9),round(t[-1]*1e9)) for t,v in model])
        else:
            for ii,(t,r) in enumerate(zip(times,resid)):
                if ii in edge_idx: continue
                key=(epoch,float(t))
                if key in noise_obs:
                    if abs(noise_obs[key]-r)>1e-8: return tag+' noise inconsistent %.3g'%abs(noise_obs[key]-r)
                else: noise_obs[key]=r
        return None
    last_query=False; seen_q_r=False
    for step in range(int(rng.integers(3,20))):
        op=rng.choice(['receive','receive','all','waves','is_hit','full','during','clear','clear_reset'])
        log.append(str(op)); err=None
        try:
            if op=='receive':
                n=int(rng.integers(20,80)); t0=rng.integers(-50,150)*dt
                s=Signal(t0+np.arange(n)*dt, rng.normal(size=n)*rng.choice([0.1,1.0]), 'voltage')
                obj.receive(s); model.append((s.times.copy(), s.values.copy()))
                if last_query: seen_q_r=True
                last_query=False
            elif op in ('all','waves','is_hit'):
                if seen_q_r: qrq+=1; seen_q_r=False
                last_query=True
                allw=obj.all_waveforms
                if len(allw)!=len(model): err='count %d vs %d'%(len(allw),len(model))
                else:
                    for k,(w,(t,v)) in enumerate(zip(allw,model)):
                        err=check_wave(w,t,'all[%d]'%k)
                        if err: break
                if not err and op in ('waves','is_hit'):
                    exp_trig=[obj.trigger(w) for w in allw]
                    ws=obj.waveforms
                    if [id(w) for w in ws]!=[id(w) for w,tr in zip(allw,exp_trig) if tr]: err='waveforms != triggered subset'
                    if obj.is_hit!=(len(ws)>0): err='is_hit'
            elif op in ('full','during'):
                n=int(rng.integers(10,120)); t0=rng.integers(-100,200)*dt
                times=t0+np.arange(n)*dt
                w=obj.full_waveform(times); err=check_wave(w,times,'full')
                if not err and op=='during':
                    if obj.is_hit_during(times)!=obj.trigger(obj.full_waveform(times)): err='is_hit_during'
            elif op=='clear':
                obj.clear(); model.clear()
                if len(obj.signals) or len(obj.all_waveforms) or len(obj.waveforms) or obj.is_hit: err='clear not empty'
            elif op=='clear_reset':
                obj.clear(reset_noise=True); model.clear(); epoch+=1
                if len(obj.signals) or len(obj.all_waveforms) or obj.is_hit: err='clear not empty'
        except Exception as e:
            err='EXC %s %s'%(type(e).__name__, str(e)[:70])
        if err:
            viol.append((seed,h,kind,noisy,nd,list(log),err)); break
print('histories',nh,'query-receive-query',qrq,'wave evaluations',evals,'violations',len(viol))
from collections import Counter
print(Counter((v[2],v[3],v[6][:25]) for v in viol))
for v in viol[:6]: print(v)
