# C13 pilot: distributions, weights, shadow, count
import numpy as np, sys
from scipy import stats, integrate
import pyrex
from pyrex.generation import *
from pyrex.particle import *
from pyrex.earth_model import PREM
np.seterr(all='ignore')
seed=int(sys.argv[1]); np.random.seed(seed); rng=np.random.default_rng(seed)
N=int(sys.argv[2])
dr,dz=3000.,2500.
g=CylindricalGenerator(dr,dz,1e9,shadow=False,flavor_ratio=(1,2,0.5),source='cosmogenic')
V=[];D=[];T=[];W=[]
c0=g.count
for i in range(N):
    p=g.create_event().roots[0]; V.append(p.vertex); D.append(p.direction); T.append(p.id.name); W.append((p.survival_weight,p.interaction_weight))
V=np.array(V);D=np.array(D)
print('count',g.count-c0==N)
ps={}
ps['r2']=stats.kstest((V[:,0]**2+V[:,1]**2)/dr**2,'uniform').pvalue
ps['phi_v']=stats.kstest((np.arctan2(V[:,1],V[:,0])%(2*np.pi))/(2*np.pi),'uniform').pvalue
ps['z']=stats.kstest(-V[:,2]/dz,'uniform').pvalue
ps['cos']=stats.kstest((D[:,2]+1)/2,'uniform').pvalue
ps['phi_d']=stats.kstest((np.arctan2(D[:,1],D[:,0])%(2*np.pi))/(2*np.pi),'uniform').pvalue
ps['unit']=float(np.max(np.abs(np.linalg.norm(D,axis=1)-1)))
from collections import Counter
cnt=Counter(T); ratio=np.array([1,2,0.5])/3.5; nb=[0.78,0.61,0.61]
names=['electron_neutrino','electron_antineutrino','muon_neutrino','muon_antineutrino','tau_neutrino','tau_antineutrino']
expf=[ratio[0]*nb[0],ratio[0]*(1-nb[0]),ratio[1]*nb[1],ratio[1]*(1-nb[1]),ratio[2]*nb[2],ratio[2]*(1-nb[2])]
obs=[cnt[n] for n in names]
ps['types']=stats.chisquare(obs,[e*N for e in expf]).pvalue
print({k:('%.3g'%v) for k,v in ps.items()})
# weights oracle for a sample
earth=PREM()
def exact_slant(ep,d):
    R=earth.earth_radius; e=np.array([ep[0],ep[1],ep[2]+R]); d=d/np.linalg.norm(d)
    b=np.dot(e,d); disc=b*b-np.dot(e,e)+R*R
    if disc<=0: return 0.0
    L=-b+np.sqrt(disc)
    if L<=0: return 0.0
    pts=[0.0,L]
    for rad in earth.radii[:-1]:
        dd=b*b-np.dot(e,e)+rad*rad
        if dd>0:
            for s in (-1,1):
                t=-b+s*np.sqrt(dd)
                if 0<t<L: pts.append(t)
    pts=sorted(pts); tot=0
    for a_,b_ in zip(pts[:-1],pts[1:]):
        tot+=integrate.quad(lambda t: float(earth.density(np.sqrt(np.dot(e,e)+2*t*b+t*t))),a_,b_,epsrel=1e-9,limit=200)[0]
    return 100*tot
worst_s=0; worst_i=0
for i in range(200):
    p=g.create_event().roots[0]
    Lint=p.interaction.total_interaction_length
    X=exact_slant(p.vertex,-p.direction); s_exp=np.exp(-X/Lint)
    # chord through cylinder: independent computation
    u=p.direction; v=p.vertex
    ts=[]
    a=u[0]**2+u[1]**2
    if a>0:
        bq=2*(v[0]*u[0]+v[1]*u[1]); cq=v[0]**2+v[1]**2-dr**2; disc=bq*bq-4*a*cq
        t1=(-bq-np.sqrt(disc))/(2*a); t2=(-bq+np.sqrt(disc))/(2*a)
    else: t1,t2=-np.inf,np.inf
    if u[2]!=0:
        tz=sorted([(0-v[2])/u[2],(-dz-v[2])/u[2]])
    else: tz=[-np.inf,np.inf]
    tin=max(t1,tz[0]); tout=min(t2,tz[1])
    Lice=Lint/0.92/100
    i_exp=(tout-tin)/Lice*np.exp(-(-tin)/Lice)
    worst_s=max(worst_s,abs(p.survival_weight-s_exp)); worst_i=max(worst_i,abs(p.interaction_weight-i_exp)/i_exp)
print('worst survival abs dev',worst_s,'worst interaction rel dev',worst_i)
# shadow
gs=CylindricalGenerator(dr,dz,1e10,shadow=True)
acc=0; psum=0; var=0; rec=[]
orig=gs.get_weights
def wrapped(particle):
    w=orig(particle); rec.append(w[0]); return w
gs.get_weights=wrapped
M=3000; c0=gs.count
for i in range(M):
    e=gs.create_event(); assert e.roots[0].survival_weight==1
thrown=gs.count-c0
rec=np.array(rec)
z=(M-rec.sum())/np.sqrt((rec*(1-rec)).sum())
print('shadow: returned',M,'thrown',thrown,'len(rec)',len(rec),'z',z)
