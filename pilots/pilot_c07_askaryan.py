# C07 prototype
import numpy as np, sys, time
import pyrex
from pyrex.askaryan import *
from pyrex.particle import Particle
from pyrex.ice_model import *
np.seterr(all='ignore')
seed=int(sys.argv[1]); rng=np.random.default_rng(seed); NC=int(sys.argv[2])
def IM(em,had):
    class I:
        def __init__(s,p,kind=None): s.em_frac=em; s.had_frac=had; s.kind=None; s.inelasticity=had
    return I
viol=[]; unresolved=0; decided=0; t_start=time.time()
def rmsdur(v,dt):
    p=v*v; tot=p.sum()
    if tot==0: return 0
    k=np.arange(len(v)); mu=(k*p).sum()/tot
    return np.sqrt(((k-mu)**2*p).sum()/tot)   # in samples
for it in range(NC):
    cls=[ARZAskaryanSignal,AVZAskaryanSignal,ZHSAskaryanSignal][rng.integers(0,3)]
    kind=rng.integers(0,3); em,had=[(1.0,0.0),(0.0,1.0),(0.6,0.4)][kind]
    E=10**rng.uniform(4,11); zv=-rng.uniform(5,2500); ice=pyrex.ice
    p=Particle('nu_e',(0,0,zv),(0,0,1),E,interaction_model=IM(em,had))
    thc=np.arccos(1/ice.index(zv))
    N=int(rng.choice([256,257,600,1001])); dt=rng.choice([1e-11,5e-11,1e-10,2.5e-10]); off=rng.uniform(-1e-6,1e-6)
    ts=off+np.arange(N)*dt
    t0=ts[0]+(rng.uniform(0.3,0.7)*N+rng.uniform(0.05,0.95))*dt
    dth=np.radians(rng.choice([0,0.3,1,2,5,10,20,40]))*rng.choice([-1,1]); psi=thc+dth
    if cls is ARZAskaryanSignal and 0<abs(dth)<1e-3: continue
    R=10**rng.uniform(0,4)
    try:
        v=cls(ts,p,psi,R,ice,t0).values
        pk=np.max(np.abs(v)); sc=max(pk,1e-300)
        if len(v)!=N or not np.all(np.isfinite(v)): viol.append(('shape/finite',cls.__name__)); continue
        v2=cls(ts,p,psi,2.5*R,ice,t0).values
        if np.max(np.abs(v*R-v2*2.5*R))>1e-10*sc*R: viol.append(('1/R',cls.__name__))
        v3=cls(ts,p,-psi,R,ice,t0).values
        if np.max(np.abs(v-v3))>1e-12*sc: viol.append(('sign of angle',cls.__name__))
        sh=rng.uniform(-1e-6,1e-6)
        v4=cls(ts+sh,p,psi,R,ice,t0+sh).values
        jit = 1.5e-11*np.max(np.abs(np.diff(v)))/dt if cls is ARZAskaryanSignal else 0.0
        if np.max(np.abs(v-v4))>1e-6*sc+jit: viol.append(('joint shift',cls.__name__,float(np.max(np.abs(v-v4))/sc)))
        m=int(rng.integers(1,40))*int(rng.choice([-1,1]))
        v5=cls(ts,p,psi,R,ice,t0+m*dt).values
        lo,hi=(m,N-1) if m>0 else (0,N-1+m)
        d5=np.max(np.abs(v5[lo:hi]-v[lo-m:hi-m]))
        if d5>1e-6*sc+jit: viol.append(('whole-sample shift',cls.__name__,m,float(d5/sc),N,dt))
        p0=Particle('nu_e',(0,0,zv),(0,0,1),0.0,interaction_model=IM(em,had))
        v0=cls(ts,p0,psi,R,ice,t0).values
        if len(v0)!=N or np.any(v0!=0): viol.append(('zero energy',cls.__name__))
        if kind==0:
            pa=Particle('nu_e',(0,0,zv),(0,0,1),3.7*E,interaction_model=IM(em,had))
            va=cls(ts,p,thc,R,ice,t0).values; vb=cls(ts,pa,thc,R,ice,t0).values
            if np.max(np.abs(vb-3.7*va))>1e-10*max(np.max(np.abs(vb)),1e-300): viol.append(('on-cone energy linearity',cls.__name__))
        # monotonic in offset, resolved only
        offs=np.radians([0,1,2.5,6,15,40]); side=rng.choice([-1,1])
        amps=[];res=[]
        for o in offs:
            w=cls(ts,p,thc+side*o,R,ice,t0).values; amps.append(np.max(np.abs(w))); res.append(rmsdur(w,dt))
        for i in range(len(offs)-1):
            if res[i]>=4/2.35 and res[i+1]>=4/2.35 and amps[i]>0:   # ~4 samples FWHM
                decided+=1
                if amps[i+1]>amps[i]*(1+1e-6): viol.append(('monotone',cls.__name__,kind,float(np.degrees(offs[i])),float(np.degrees(offs[i+1])),amps[i],amps[i+1],dt,float(E),int(side)))
            else: unresolved+=1
    except Exception as e:
        viol.append(('EXC',cls.__name__,type(e).__name__,str(e)[:60]))
print('cases',NC,'time %.1f'%(time.time()-t_start),'monotone decided',decided,'unresolved',unresolved,'violations',len(viol))
from collections import Counter
print(Counter(v[:2] for v in viol).most_common(10))
for v in viol[:8]: print(v)
