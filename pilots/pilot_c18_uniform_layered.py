# C18 pilot: uniform image construction; layered Snell chain; split-medium reproduction (post-fix)
import numpy as np, sys
import pyrex
from pyrex.ice_model import *
from pyrex.ray_tracing import *
from pyrex.custom.layered_ice import *
np.seterr(all='ignore')
seed=int(sys.argv[1]); rng=np.random.default_rng(seed)
C=299792458.0
viol=[]; cnt=dict(uni=0,lay=0,split=0)
# --- uniform image
for it in range(int(sys.argv[2])):
    zlo=-rng.uniform(100,3000); n=rng.uniform(1.2,1.9)
    ice=UniformIce(n,valid_range=(zlo,0),index_above=rng.choice([1.0,1.3]),index_below=rng.choice([1.5,2.0]))
    R=int(rng.integers(0,4))
    class UT(UniformRayTracer): max_reflections=R
    a=np.array([rng.uniform(-1e3,1e3),rng.uniform(-1e3,1e3),rng.uniform(zlo,0)]); rho=10**rng.uniform(0,3.5); ph=rng.uniform(0,2*np.pi)
    b=np.array([a[0]+rho*np.cos(ph),a[1]+rho*np.sin(ph),rng.uniform(zlo,0)])
    sols=UT(a,b,ice).solutions
    if len(sols)!=2*R+1: viol.append(('uni count',len(sols),R))
    H=-zlo
    for p in sols:
        cnt['uni']+=1
        k=p._reflections
        # image: unfold. initial direction up (+1) or down (-1) from emitted z
        up = p.emitted_direction[2]>0 if k>0 else None
        if k==0: zimg=b[2]
        else:
            # total vertical travel
            d1 = (0-a[2]) if up else (a[2]-zlo)
            final_up = (up if k%2==0 else (not up))
            dlast = (b[2]-zlo) if final_up else (0-b[2])
            tot=d1+(k-1)*H+dlast
            zimg=a[2]+(tot if up else -tot)
        L=np.sqrt(rho**2+(zimg-a[2])**2)
        e=np.array([b[0]-a[0],b[1]-a[1],zimg-a[2]])/L
        rcv=e.copy(); 
        if k%2==1: rcv[2]=-rcv[2]
        dev=[abs(p.path_length-L)/L, abs(p.tof-n*L/C)/(n*L/C), np.max(np.abs(p.emitted_direction-e)), np.max(np.abs(p.received_direction-rcv))]
        if max(dev)>1e-9: viol.append(('uni image',k,[float(x) for x in dev]))
        pts=p._points
        for q in pts[1:-1]:
            if not (q[2]==0 or q[2]==zlo): viol.append(('uni refl point not on boundary',q.tolist()))
            # on image line: horizontal position proportional
# --- layered genuine stacks
for it in range(int(sys.argv[3])):
    nl=int(rng.integers(2,4)); bounds=sorted(rng.uniform(-900,-50,size=nl-1),reverse=True); edges=[0]+list(bounds)+[-1000]
    layers=[]
    for i in range(nl):
        if rng.random()<0.5: layers.append(UniformIce(rng.uniform(1.3,1.8),valid_range=(edges[i+1],edges[i]),index_above=None,index_below=None))
        else: layers.append(AntarcticIce(n0=rng.uniform(1.6,1.85),k=rng.uniform(0.2,0.45),a=rng.uniform(0.008,0.02),valid_range=(edges[i+1],edges[i]),index_above=None,index_below=None))
    ice=LayeredIce(layers,index_above=1.0,index_below=None)
    a=np.array([rng.uniform(-100,100),rng.uniform(-100,100),-rng.uniform(1,999)]); rho=10**rng.uniform(0.5,3); ph=rng.uniform(0,2*np.pi)
    b=np.array([a[0]+rho*np.cos(ph),a[1]+rho*np.sin(ph),-rng.uniform(1,999)])
    try: sols=LayeredRayTracer(a,b,ice).solutions
    except Exception as e:
        viol.append(('lay EXC',type(e).__name__,str(e)[:60])); continue
    for p in sols:
        cnt['lay']+=1
        subs=p.paths
        if np.max(np.abs(subs[0].from_point-a))>1e-9 or np.max(np.abs(subs[-1].to_point-b))>1e-9: viol.append(('lay endpoints',))
        for s1,s2 in zip(subs[:-1],subs[1:]):
            gap=np.max(np.abs(s1.to_point-s2.from_point))
            if gap>1e-6: viol.append(('lay chain gap',float(gap)))
            n1=s1.ice.index(s1.to_point[2]); n2=s2.ice.index(s2.from_point[2])
            d1=s1.received_direction; d2=s2.emitted_direction
            if np.sign(d1[2])==np.sign(d2[2]):
                sn=abs(n1*np.hypot(d1[0],d1[1])-n2*np.hypot(d2[0],d2[1]))
                if sn>1e-6: viol.append(('lay snell',float(sn),type(s1).__name__,type(s2).__name__, [(type(l).__name__[:3], round(float(l.index(l.valid_range[1])),3), round(float(l.index(l.valid_range[0])),3), [round(float(x),1) for x in l.valid_range]) for l in ice.layers], a.round(1).tolist(), b.round(1).tolist(), len(subs), d1.round(4).tolist(), d2.round(4).tolist(), float(n1), float(n2), [round(float(x),2) for x in s1.to_point]))
            else:
                if max(abs(d1[0]-d2[0]),abs(d1[1]-d2[1]),abs(d1[2]+d2[2]))>1e-6: viol.append(('lay mirror',d1.round(5).tolist(),d2.round(5).tolist(),type(s1).__name__,type(s2).__name__, round(float(s1.to_point[2]),3), [round(x,2) for x in ice.boundaries], getattr(s1,'direct',None), getattr(s2,'direct',None)))
        if abs(sum(s.path_length for s in subs)-p.path_length)>1e-9*p.path_length: viol.append(('lay sum',))
# --- split medium
for it in range(int(sys.argv[3])):
    zb=-rng.uniform(50,950)
    full=AntarcticIce(valid_range=(-1000,0)); ice=LayeredIce([AntarcticIce(valid_range=(zb,0),index_above=1,index_below=None),AntarcticIce(valid_range=(-1000,zb),index_above=None,index_below=None)])
    a=np.array([rng.uniform(-100,100),rng.uniform(-100,100),-rng.uniform(1,999)]); rho=10**rng.uniform(0.5,3); ph=rng.uniform(0,2*np.pi)
    b=np.array([a[0]+rho*np.cos(ph),a[1]+rho*np.sin(ph),-rng.uniform(1,999)])
    ref=SpecializedRayTracer(a,b,full).solutions
    try: lay=LayeredRayTracer(a,b,ice).solutions
    except Exception as e:
        viol.append(('split EXC',type(e).__name__,str(e)[:60])); continue
    used=set()
    for p in ref:
        cnt['split']+=1
        best=None
        for i,q in enumerate(lay):
            d=abs(q.path_length-p.path_length)/p.path_length
            if best is None or d<best[0]: best=(d,i,q)
        if best is None: viol.append(('split missing',len(lay))); continue
        d,i,q=best; used.add(i)
        fr=np.abs(np.array(q.fresnel,dtype=complex)); fp=np.abs(np.array(p.fresnel,dtype=complex))
        dev=[d, abs(q.tof-p.tof)/p.tof, np.max(np.abs(q.emitted_direction-p.emitted_direction)), np.max(np.abs(q.received_direction-p.received_direction)), np.max(np.abs(fr-fp))]
        if max(dev)>1e-6: viol.append(('split mismatch',[float('%.3g'%x) for x in dev], float(p.beta), zb, a[2], b[2], rho))
    for i,q in enumerate(lay):
        if i not in used:
            fr=np.abs(np.array(q.fresnel,dtype=complex))
            if np.max(fr)>1e-9: viol.append(('split extra nonzero',fr.round(4).tolist(), len(q.paths), round(float(q.path_length),3), [round(float(p.path_length),3) for p in ref], [round(float(x.path_length),3) for x in lay], round(zb,1), round(a[2],1), round(b[2],1), round(rho,1)))
print(cnt,'violations',len(viol))
from collections import Counter
print(Counter(v[0] for v in viol))
for v in [x for x in viol if x[0]!="lay mirror"][:10]: print(v)
