"""Small, format-valid antenna data files for pyrex.custom.ara / arianna (their real data files are emptied or
absent in this sandbox).  Written into a *scratch copy* of the package so that the module bodies execute; the
numbers are synthetic (smooth gain patterns) and are never compared with anything."""
import os
import numpy as np


def _arasim(path, nfreq=6):
    with open(path, "w") as f:
        for i in range(nfreq):
            f.write("freq : %.2f MHz\n" % (83.33 + 100.0 * i))
            f.write("SWR : %.4f\n" % (1.9 + 0.1 * i))
            f.write(" Theta \t Phi \t Gain(dB)     \t   Gain     \t    Phase(deg) \n")
            for theta in range(0, 181, 30):
                for phi in range(0, 360, 30):
                    db = -3.0 + 4.0 * np.sin(np.radians(theta)) ** 2 + 0.1 * i
                    f.write("%d \t %d \t %.2f     \t   %.4f     \t    %.2f \n" % (theta, phi, db, 10 ** (db / 10), 10.0 * i + 0.05 * theta))


def _wipld(base, nfreq=7):
    freqs = [100.0 + 50.0 * i for i in range(nfreq)]
    with open(base + ".ad1", "w") as f:
        f.write(">  MHz  synthetic fixture\n")
        for fr in freqs:
            f.write("%.1f 1.0 0.0 0.5 0.1 50.0 2.0 %.4f %.4f\n" % (fr, 0.1 * np.cos(fr / 100), 0.05 * np.sin(fr / 100)))
    with open(base + ".ra1", "w") as f:
        for fr in freqs:
            f.write("> Gen. no. 1 %.1f MHz synthetic\n" % fr)
            for phi in range(0, 361, 30):
                for theta in range(-90, 91, 30):
                    eth = np.cos(np.radians(theta)) * (1 + 0.001 * fr)
                    eph = 0.3 * np.sin(np.radians(phi)) * np.cos(np.radians(theta))
                    f.write("%.1f %.1f %.5f %.5f %.5f %.5f %.5f %.5f\n" % (phi, theta, eph, 0.1 * eph, eth, 0.2 * eth, 1.0, 0.0))


def write_fixtures(pyrex_dir):
    """pyrex_dir = path of a scratch copy of the pyrex package."""
    ara = os.path.join(pyrex_dir, "custom", "ara", "data")
    os.makedirs(ara, exist_ok=True)
    for name in ("Vpol_original_CrossFeed_150mmHole_Ice_ARASim", "Hpol_original_150mmHole_Ice_ARASim"):
        for ext in (".pkl",):
            p = os.path.join(ara, name + ext)
            if os.path.exists(p):
                os.remove(p)
        _arasim(os.path.join(ara, name + ".txt"))
    ari = os.path.join(pyrex_dir, "custom", "arianna", "data")
    os.makedirs(ari, exist_ok=True)
    base = os.path.join(ari, "createLPDA_100MHz_InfFirn")
    for ext in (".pkl", ".tar.gz"):
        if os.path.exists(base + ext):
            os.remove(base + ext)
    _wipld(base)
