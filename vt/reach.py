"""Reach counters: count entries into the anchor functions of a property with sys.monitoring.

An anchor is "module:Qual.name".  Properties, lazy_property objects, staticmethods, classmethods and
functools-wrapped callables are unwrapped to their code object.  Code objects that are not anchors get
DISABLE back, so the overhead is a few percent.  A monitor that wrapped a function a refactoring no longer
calls would otherwise report "held" on zero observations; with the counters the run is inconclusive.
"""
import importlib
import os
import sys


def _code_of(obj, name=None):
    seen = 0
    while seen < 8:
        seen += 1
        if hasattr(obj, "__code__"):
            # decorators such as lazy_property share one wrapper code object: look through the closure
            # for the function that really carries the requested name
            if name and obj.__name__ != name and obj.__closure__:
                for cell in obj.__closure__:
                    try:
                        inner = cell.cell_contents
                    except ValueError:
                        continue
                    if callable(inner) and getattr(inner, "__name__", None) == name and hasattr(inner, "__code__"):
                        return inner.__code__
            return obj.__code__
        for attr in ("fget", "__func__", "__wrapped__", "fn", "func"):
            nxt = getattr(obj, attr, None)
            if nxt is not None and nxt is not obj:
                obj = nxt
                break
        else:
            return None
    return None


def resolve(anchor):
    modname, qual = anchor.split(":")
    mod = importlib.import_module(modname)
    obj = mod
    parts = qual.split(".")
    for i, p in enumerate(parts):
        if i == len(parts) - 1 and isinstance(obj, type):
            # look in the class __dict__ first so that descriptors are not triggered
            for klass in obj.__mro__:
                if p in klass.__dict__:
                    return _code_of(klass.__dict__[p], p)
        obj = getattr(obj, p)
    return _code_of(obj, parts[-1])


def function_lines(path):
    """{(qualname-ish name, first line): set of line numbers} of every function body compiled from the file."""
    import types
    out = {}
    try:
        top = compile(open(path).read(), path, "exec")
    except Exception:
        return out

    def walk(co):
        for c in co.co_consts:
            if isinstance(c, types.CodeType):
                if c.co_flags & 0x2 and c.co_name not in ("<module>",):        # CO_NEWLOCALS: functions, lambdas, comprehensions
                    lines = {l for (_s, _e, l) in c.co_lines() if l is not None and l != c.co_firstlineno}
                    if lines:
                        out[(c.co_name, c.co_firstlineno)] = lines
                walk(c)
    walk(top)
    return out


class ReachCounter:
    TOOL = 3

    def __init__(self, anchors, cover_files=()):
        self.cover_files = {os.path.realpath(f) for f in cover_files}
        self.lines_hit = {}          # realpath -> set of executed line numbers (function bodies only)
        self.counts = {a: 0 for a in anchors}
        self.unresolved = []
        self._by_code = {}
        for a in anchors:
            try:
                code = resolve(a)
            except Exception:
                code = None
            if code is None:
                self.unresolved.append(a)
            else:
                self._by_code.setdefault(code, []).append(a)

    def start(self):
        if not self._by_code and not self.cover_files:
            return
        mon = sys.monitoring
        try:
            mon.use_tool_id(self.TOOL, "vt-reach")
        except ValueError:
            pass
        by_code, counts = self._by_code, self.counts
        cover, hit, armed, real = self.cover_files, self.lines_hit, set(), {}

        def on_start(code, offset):
            # line coverage of the watched files: every line event fires once and is then switched off (DISABLE), so the cost
            # is one callback per executed line per process
            if cover and code not in armed:
                armed.add(code)
                fn = real.get(code.co_filename)
                if fn is None:
                    fn = real[code.co_filename] = os.path.realpath(code.co_filename)
                if fn in cover:
                    try:
                        mon.set_local_events(self.TOOL, code, mon.events.LINE)
                    except Exception:
                        pass
            names = by_code.get(code)
            if names is None:
                return mon.DISABLE
            for n in names:
                counts[n] += 1

        def on_line(code, line):
            fn = real.get(code.co_filename) or os.path.realpath(code.co_filename)
            hit.setdefault(fn, set()).add(line)
            return mon.DISABLE

        mon.register_callback(self.TOOL, mon.events.PY_START, on_start)
        if cover:
            mon.register_callback(self.TOOL, mon.events.LINE, on_line)
        mon.set_events(self.TOOL, mon.events.PY_START)

    def stop(self):
        if not self._by_code and not self.cover_files:
            return
        mon = sys.monitoring
        mon.set_events(self.TOOL, 0)
        mon.register_callback(self.TOOL, mon.events.PY_START, None)
        if self.cover_files:
            mon.register_callback(self.TOOL, mon.events.LINE, None)
        try:
            mon.free_tool_id(self.TOOL)
        except Exception:
            pass
