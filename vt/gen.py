"""Seeded generators shared by several checks: ice models from JSON specs, points, signals."""
import numpy as np


def make_ice(spec):
    """Build a real pyrex ice model from a JSON-able spec."""
    import pyrex.ice_model as im
    kind = spec["kind"]
    if kind == "antarctic":
        kw = {k: spec[k] for k in ("n0", "k", "a") if k in spec}
        if "range" in spec:
            kw["valid_range"] = tuple(spec["range"])
        if "above" in spec:
            kw["index_above"] = spec["above"]
        if "below" in spec:
            kw["index_below"] = spec["below"]
        return im.AntarcticIce(**kw)
    if kind == "arasim":
        return im.ArasimIce()
    if kind == "greenland":
        return im.GreenlandIce()
    if kind == "uniform":
        return im.UniformIce(spec["n"], valid_range=tuple(spec.get("range", (-2850, 0))),
                             index_above=spec.get("above", 1), index_below=spec.get("below", None))
    if kind == "layered":
        from pyrex.custom.layered_ice import LayeredIce
        layers = [make_ice(s) for s in spec["layers"]]
        return LayeredIce(layers, index_above=spec.get("above", 1), index_below=spec.get("below", None))
    raise ValueError(kind)


def random_exp_ice_spec(rng, full=False):
    """Random exponential-profile ice n(z) = n0 - k exp(a z)."""
    spec = {"kind": "antarctic", "n0": float(rng.uniform(1.5, 1.9)), "k": float(rng.uniform(0.1, 0.6)),
            "a": float(rng.uniform(0.005, 0.05)), "range": [-float(rng.uniform(300, 3000)), 0.0]}
    if full:
        spec["above"] = [1.0, None][int(rng.integers(0, 2))]
        spec["below"] = [None, 1.9][int(rng.integers(0, 2))]
    return spec


def ice_family_spec(rng):
    k = int(rng.integers(0, 4))
    if k == 0:
        return {"kind": "antarctic"}
    if k == 1:
        return {"kind": "arasim"}
    if k == 2:
        return {"kind": "greenland"}
    return random_exp_ice_spec(rng)


def unit(v):
    v = np.asarray(v, float)
    return v / np.linalg.norm(v)


def random_unit(rng):
    ct = rng.uniform(-1, 1)
    ph = rng.uniform(0, 2 * np.pi)
    st = np.sqrt(1 - ct * ct)
    return np.array([st * np.cos(ph), st * np.sin(ph), ct])


def random_rotation(rng):
    q = rng.normal(size=4)
    q /= np.linalg.norm(q)
    a, b, c, d = q
    return np.array([[a*a+b*b-c*c-d*d, 2*(b*c-a*d), 2*(b*d+a*c)],
                     [2*(b*c+a*d), a*a-b*b+c*c-d*d, 2*(c*d-a*b)],
                     [2*(b*d-a*c), 2*(c*d+a*b), a*a-b*b-c*c+d*d]])


def make_particle(energy, em_frac, had_frac, vertex=(0.0, 0.0, -500.0), direction=(0.0, 0.0, 1.0), pid="nu_e"):
    """A real pyrex Particle whose interaction is a stub with fixed shower fractions."""
    from pyrex.particle import Particle

    class FixedInteraction:
        def __init__(self, particle, kind=None):
            self.em_frac = em_frac
            self.had_frac = had_frac
            self.kind = None
            self.inelasticity = had_frac
    return Particle(pid, tuple(vertex), tuple(direction), energy, interaction_model=FixedInteraction)
