"""Runner shared by the twenty checks.

A check module (vt/checks/cNN.py) provides

    PROPERTY      "C07"
    TITLE         one line
    ANCHORS       ["pyrex.signals:Signal.filter_frequencies", ...]  functions whose entry is counted
    RULE          text: how cases are generated, what makes one non-trivial / distinct
    ASSUMPTIONS   [text, ...]
    gen_cases(tier, seed) -> [case, ...]     JSON-able dicts, each with "cls" (input class)
    run_case(case) -> result                 runs the REAL pyrex code under the monitor, returns
        {"decided": bool,          the oracle reached a verdict for this case
         "nontrivial": bool,       by the module's RULE
         "violations": [{"clause": str, "detail": {...}}, ...],
         "metrics": {name: float}, worst deviation / tolerance ratios etc. (max-aggregated)
         "events": int,            monitor evaluations performed
         "sample": {...},          optional, what the case looked like (for the evidence file)
         "skip": str | None}       why it was not decided
    setup()       optional: attach contracts / recorders once per worker
    kf_*(case, violation) -> bool            classifiers named by known_findings.json
    MIN_NONTRIVIAL  optional int (default 2): fewer decided non-trivial cases => inconclusive

Exit codes: 0 held on everything explored, 1 violation (line "VIOLATION property=<id> replay=<path>"),
2 inconclusive (line "INCONCLUSIVE property=<id> reason=...").  The three are never folded together.
"""
import argparse
import hashlib
import importlib
import json
import os
import signal
import subprocess
import sys
import tempfile
import time
import traceback

HERE = os.path.dirname(os.path.dirname(os.path.abspath(__file__)))
REPO = os.environ.get("VERIF_REPO", "/repo")
DEPS = os.path.join(HERE, ".deps")
NCPU = 16


# ----------------------------------------------------------------------------- helpers
def ensure_deps():
    """icontract lives in /verif/.deps (git-ignored); install it offline when missing."""
    if os.path.isdir(os.path.join(DEPS, "icontract")):
        return True
    cmd = ["/venv/bin/python", "-m", "pip", "install", "--quiet", "--no-index", "--find-links",
           "/opt/veriftools/wheels", "--target", DEPS, "icontract"]
    try:
        subprocess.run(cmd, check=True, stdout=subprocess.DEVNULL, stderr=subprocess.DEVNULL, timeout=300)
    except Exception:
        return False
    return os.path.isdir(os.path.join(DEPS, "icontract"))


def jdefault(o):
    import numpy as np
    if isinstance(o, np.ndarray):
        return o.tolist()
    if isinstance(o, (np.floating,)):
        return float(o)
    if isinstance(o, (np.integer,)):
        return int(o)
    if isinstance(o, (np.bool_,)):
        return bool(o)
    if isinstance(o, complex):
        return [o.real, o.imag]
    if isinstance(o, (set, tuple)):
        return list(o)
    return repr(o)


def dumps(o, **kw):
    return json.dumps(o, default=jdefault, **kw)


def case_key(case):
    return hashlib.sha1(dumps(case, sort_keys=True).encode()).hexdigest()[:12]


def load_module(pid):
    return importlib.import_module("vt.checks." + pid.lower())


def load_findings(pid):
    path = os.path.join(HERE, "known_findings.json")
    with open(path) as f:
        allf = json.load(f)["findings"]
    return [k for k in allf if k["property"] == pid]


def resolve_classifier(mod, name):
    # "c01.kf_saturated" -> function kf_saturated of the property's own module
    fn = name.split(".")[-1]
    return getattr(mod, fn)


class CaseTimeout(Exception):
    pass


def _alarm(signum, frame):
    raise CaseTimeout()


def run_one(mod, case, timeout):
    """Run a single case with a watchdog; harness errors and time-outs are *inconclusive*."""
    import numpy as np
    np.random.seed(int(case.get("npseed", 12345)) % (2**32))
    signal.signal(signal.SIGALRM, _alarm)
    signal.alarm(int(timeout))
    t0 = time.time()
    try:
        res = mod.run_case(case)
    except CaseTimeout:
        res = {"decided": False, "nontrivial": False, "violations": [], "skip": "watchdog"}
    except MemoryError:
        # the worker runs under an address-space limit (VERIF_MEM_GB): a case that needs more is not decided - like the watchdog,
        # a resource limit of the harness is never a verdict on the property
        import gc
        gc.collect()
        res = {"decided": False, "nontrivial": False, "violations": [], "skip": "memory_limit"}
    except Exception as exc:
        # Who raised?  Walk the traceback from the innermost frame outwards: the first frame that belongs to
        # pyrex or to the harness decides.  An exception escaping from pyrex (or from numpy/scipy/h5py called
        # by pyrex) on an input the workload considers in-domain is a violation of the property being driven
        # ("no code path fails"); one raised by the harness itself makes the case inconclusive.
        frames = traceback.extract_tb(exc.__traceback__)
        owner, where = "harness", ""
        for fr in reversed(frames):
            fn = os.path.abspath(fr.filename)
            if fn.startswith(os.path.join(os.path.abspath(REPO), "")) or "/pyrex/" in fn and "/verif/" not in fn:
                owner, where = "pyrex", "%s:%s" % (os.path.basename(fn), fr.name)
                break
            if fn.startswith(os.path.join(HERE, "vt")):
                break
        if owner == "pyrex":
            res = {"decided": True, "nontrivial": True, "skip": None,
                   "violations": [{"clause": "unexpected exception from pyrex",
                                   "detail": {"type": type(exc).__name__, "message": str(exc)[:200], "raised_in": where,
                                              "called_from": next((f"{os.path.basename(f.filename)}:{f.lineno}" for f in reversed(frames)
                                                                   if os.path.abspath(f.filename).startswith(os.path.join(HERE, "vt", "checks"))), "")}}]}
        else:
            res = {"decided": False, "nontrivial": False, "violations": [], "skip": "harness_error",
                   "error": traceback.format_exc()[-1500:]}
    finally:
        signal.alarm(0)
    res.setdefault("violations", [])
    res.setdefault("metrics", {})
    res.setdefault("events", 0)
    res.setdefault("skip", None)
    res["wall"] = time.time() - t0
    return res


# ----------------------------------------------------------------------------- worker
def worker(pid, infile, outfile):
    try:
        import resource
        lim = int(float(os.environ.get("VERIF_MEM_GB", "12")) * 2**30)
        resource.setrlimit(resource.RLIMIT_AS, (lim, lim))
    except Exception:       # noqa: BLE001 -- no limit available: run without
        pass
    with open(infile) as f:
        job = json.load(f)
    out = open(outfile, "w")
    try:
        mod = load_module(pid)
        if not getattr(mod, "NO_PYREX_IMPORT", False):
            import pyrex  # noqa: F401  -- no shim: a tree that does not import is inconclusive
    except Exception:
        out.write(dumps({"fatal": "import", "error": traceback.format_exc()[-2000:]}) + "\n")
        out.close()
        return 0
    from vt import reach
    try:
        # resolve the anchors' code objects *before* contracts are attached: icontract replaces the methods of a
        # decorated class by wrappers that all share one code object
        counter = reach.ReachCounter(getattr(mod, "ANCHORS", []), cover_files=cover_files_of(mod))
        if hasattr(mod, "setup"):
            mod.setup()
        counter.start()
    except Exception:
        out.write(dumps({"fatal": "setup", "error": traceback.format_exc()[-2000:]}) + "\n")
        out.close()
        return 0
    for case in job["cases"]:
        res = run_one(mod, case, job["case_timeout"])
        res["case"] = case
        out.write(dumps(res) + "\n")
        out.flush()
    counter.stop()
    out.write(dumps({"reach": counter.counts, "unresolved": counter.unresolved, "lines": {k: sorted(v) for k, v in counter.lines_hit.items()}}) + "\n")
    out.close()
    return 0


def cover_files_of(mod):
    """Source files whose function bodies get line coverage: the files of the anchors' modules plus mod.COVER (module names)."""
    import importlib
    names = {a_.split(":")[0] for a_ in getattr(mod, "ANCHORS", [])} | set(getattr(mod, "COVER", []))
    files = []
    for n in sorted(names):
        try:
            f = importlib.import_module(n).__file__
        except Exception:
            continue
        if f and f.endswith(".py"):
            files.append(os.path.realpath(f))
    return files


def line_coverage_report(mod, lines_hit):
    """Per watched file: executable lines of function bodies, lines reached by this run, and which functions were left
    (partly) unvisited -- the map of what the workload did not drive."""
    from vt import reach
    rep = {}
    for f in cover_files_of(mod):
        funcs = reach.function_lines(f)
        hit = set(lines_hit.get(f, ()))
        total = sum(len(v) for v in funcs.values())
        got = sum(len(v & hit) for v in funcs.values())
        never, partial = [], []
        for (name, first), ls in sorted(funcs.items(), key=lambda kv: kv[0][1]):
            miss = sorted(ls - hit)
            if not miss:
                continue
            if len(miss) == len(ls):
                never.append("%s@%d" % (name, first))
            else:
                partial.append("%s@%d: %s" % (name, first, _ranges(miss)))
        rel = f.split("/pyrex/", 1)[-1] if "/pyrex/" in f else os.path.basename(f)
        rep["pyrex/" + rel] = {"executable_lines_in_function_bodies": total, "reached": got, "functions_never_entered": never, "functions_partly_reached (unreached lines)": partial}
    return rep


def _ranges(nums):
    out, start, prev = [], None, None
    for n in nums:
        if start is None:
            start = prev = n
        elif n == prev + 1:
            prev = n
        else:
            out.append(str(start) if start == prev else "%d-%d" % (start, prev))
            start = prev = n
    if start is not None:
        out.append(str(start) if start == prev else "%d-%d" % (start, prev))
    return ",".join(out)


# ----------------------------------------------------------------------------- main
def write_replay(pid, case, violations, tier, seed):
    d = os.path.join(os.environ.get("VERIF_OUT") or HERE, "replays", pid)
    os.makedirs(d, exist_ok=True)
    path = os.path.join(d, case_key(case) + ".json")
    with open(path, "w") as f:
        f.write(dumps({"property": pid, "tier": tier, "seed": seed, "case": case,
                       "violations": violations}, indent=1))
    return os.path.relpath(path, HERE)


def classify(mod, findings, case, viol):
    for k in findings:
        if k.get("status") != "open":
            continue
        try:
            if resolve_classifier(mod, k["classifier"])(case, viol):
                return k["id"]
        except Exception:
            continue
    return None


def write_evidence(pid, ev):
    # VERIF_OUT=<dir>: evidence and replays of experiments (mutation runs, seeded changes in scratch copies) go there
    # instead of into the committed evidence/ directory; the registered commands never set it
    d = os.path.join(os.environ.get("VERIF_OUT") or HERE, "evidence")
    os.makedirs(d, exist_ok=True)
    with open(os.path.join(d, pid + ".json"), "w") as f:
        f.write(dumps(ev, indent=1) + "\n")


def main(argv=None):
    ap = argparse.ArgumentParser()
    ap.add_argument("property")
    ap.add_argument("--tier", default=os.environ.get("VERIF_TIER", "quick"), choices=["quick", "thorough"])
    ap.add_argument("--seed", type=int, default=int(os.environ.get("VERIF_SEED", "0") or 0))
    ap.add_argument("--replay")
    ap.add_argument("--worker", nargs=2)
    ap.add_argument("--jobs", type=int, default=int(os.environ.get("VERIF_JOBS", NCPU)))
    ap.add_argument("--limit", type=int, default=0, help="debug: only the first N cases")
    a = ap.parse_args(argv)
    pid = a.property.upper()
    if a.worker:
        return worker(pid, *a.worker)
    t0 = time.time()
    have_deps = ensure_deps()
    mod = load_module(pid)
    findings = load_findings(pid)
    if getattr(mod, "NEEDS_ICONTRACT", False) and not have_deps:
        print(f"INCONCLUSIVE property={pid} reason=icontract could not be installed from the wheelhouse")
        return 2

    # ---- replay of one stored case
    if a.replay:
        with open(a.replay) as f:
            rp = json.load(f)
        try:
            if not getattr(mod, "NO_PYREX_IMPORT", False):
                import pyrex  # noqa: F401
            if hasattr(mod, "setup"):
                mod.setup()
        except Exception:
            traceback.print_exc()
            print(f"INCONCLUSIVE property={pid} reason=pyrex does not import")
            return 2
        res = run_one(mod, rp["case"], 3600)
        print(dumps({k: v for k, v in res.items() if k != "case"}, indent=1))
        bad = [v for v in res["violations"] if classify(mod, findings, rp["case"], v) is None]
        if bad:
            print(f"VIOLATION property={pid} replay={a.replay}")
            return 1
        if not res.get("decided"):
            print(f"INCONCLUSIVE property={pid} reason=replayed case not decided ({res.get('skip')})")
            return 2
        return 0

    cases = mod.gen_cases(a.tier, a.seed)
    if a.limit:
        cases = cases[:a.limit]
    for i, c in enumerate(cases):
        c.setdefault("idx", i)
        c.setdefault("npseed", (a.seed * 1000003 + i * 7919 + 17) % (2**31))
    case_timeout = getattr(mod, "CASE_TIMEOUT", {"quick": 120, "thorough": 600})[a.tier]
    budget = getattr(mod, "BUDGET", {"quick": 600, "thorough": 7200})[a.tier]
    nsh = max(1, min(a.jobs, len(cases) // max(1, getattr(mod, "MIN_PER_SHARD", 1))))
    scratch = tempfile.mkdtemp(prefix="vt_%s_" % pid.lower())
    procs = []
    env = dict(os.environ)
    try:
        for s in range(nsh):
            inf = os.path.join(scratch, f"in{s}.json")
            outf = os.path.join(scratch, f"out{s}.jsonl")
            with open(inf, "w") as f:
                f.write(dumps({"cases": cases[s::nsh], "case_timeout": case_timeout}))
            p = subprocess.Popen([sys.executable, "-W", "ignore", "-m", "vt.engine", pid, "--worker", inf, outf],
                                 cwd=HERE, env=env, stdout=subprocess.DEVNULL, stderr=subprocess.PIPE)
            procs.append((p, outf, len(cases[s::nsh])))
        deadline = time.time() + budget
        shard_err = []
        for p, outf, n in procs:
            try:
                _, err = p.communicate(timeout=max(1, deadline - time.time()))
                if p.returncode != 0:
                    shard_err.append("exit %s: %s" % (p.returncode, (err or b"")[-400:].decode("utf-8", "replace")))
            except subprocess.TimeoutExpired:
                p.kill()
                p.communicate()
                shard_err.append("shard watchdog")
        results, reach_counts, unresolved, fatal, lines_hit = [], {}, set(), None, {}
        for p, outf, n in procs:
            if not os.path.exists(outf):
                continue
            with open(outf) as f:
                for line in f:
                    try:
                        r = json.loads(line)
                    except Exception:
                        continue
                    if "fatal" in r:
                        fatal = r
                    elif "reach" in r:
                        for k, v in r["reach"].items():
                            reach_counts[k] = reach_counts.get(k, 0) + v
                        unresolved.update(r["unresolved"])
                        for fk, ls in r.get("lines", {}).items():
                            lines_hit.setdefault(fk, set()).update(ls)
                    else:
                        results.append(r)
    finally:
        import shutil
        shutil.rmtree(scratch, ignore_errors=True)

    # ---- aggregate
    classes, kf_counts, viol_out, samples = {}, {}, [], []
    seen_keys, events, skips = set(), 0, {}
    distinct_nontrivial = 0
    for r in results:
        c = r["case"]
        cl = classes.setdefault(c.get("cls", "-"), {"generated": 0, "decided": 0, "nontrivial": 0,
                                                    "violating": 0, "worst": {}})
        cl["generated"] += 1
        events += r.get("events", 0)
        if r.get("skip"):
            skips[r["skip"]] = skips.get(r["skip"], 0) + 1
        if r.get("decided"):
            cl["decided"] += 1
        for m, v in (r.get("metrics") or {}).items():
            if v is not None and v == v and v > cl["worst"].get(m, float("-inf")):
                cl["worst"][m] = v
        key = case_key({k: v for k, v in c.items() if k not in ("idx", "npseed")})
        if r.get("decided") and r.get("nontrivial"):
            cl["nontrivial"] += 1
            if key not in seen_keys:
                seen_keys.add(key)
                distinct_nontrivial += 1
        if r.get("sample") is not None and len(samples) < 3 and r.get("decided") and \
                all(s.get("class") != c.get("cls") for s in samples):
            samples.append({"class": c.get("cls"), **r["sample"]})
        unmatched = []
        for v in r["violations"]:
            k = classify(mod, findings, c, v)
            if k:
                kf_counts[k] = kf_counts.get(k, 0) + 1
            else:
                unmatched.append(v)
        if unmatched:
            cl["violating"] += 1
            viol_out.append((c, unmatched))
    if not samples and results:
        for r in results:
            if r.get("sample") is not None:
                samples.append({"class": r["case"].get("cls"), **r["sample"]})
                break
    if not samples and cases:
        samples = [{"class": cases[0].get("cls"), "case": cases[0]}]

    errors = [r.get("error") for r in results if r.get("skip") == "harness_error"][:3]
    n_decided = sum(cl["decided"] for cl in classes.values())
    anchors = getattr(mod, "ANCHORS", [])
    zero_anchors = [a_ for a_ in anchors if reach_counts.get(a_, 0) == 0]
    reasons = []
    if fatal:
        reasons.append("pyrex/monitor could not be loaded (%s): %s" % (fatal["fatal"], fatal["error"].strip().splitlines()[-1]))
    if shard_err:
        reasons.append("worker failure: " + "; ".join(shard_err)[:300])
    if len(results) < len(cases):
        reasons.append("only %d of %d cases returned" % (len(results), len(cases)))
    if zero_anchors and not fatal:
        reasons.append("anchor(s) never entered: " + ",".join(zero_anchors))
    if distinct_nontrivial < getattr(mod, "MIN_NONTRIVIAL", 2):
        reasons.append("only %d decided non-trivial cases" % distinct_nontrivial)
    if skips.get("harness_error", 0) > 0:
        reasons.append("%d harness errors, e.g. %s" % (skips["harness_error"], (errors[0] or "").strip().splitlines()[-1] if errors else ""))
    if skips.get("watchdog", 0) > max(2, 0.02 * len(cases)):
        reasons.append("%d cases hit the watchdog" % skips["watchdog"])
    if skips.get("memory_limit", 0) > max(2, 0.02 * len(cases)):
        reasons.append("%d cases hit the memory limit of the harness" % skips["memory_limit"])

    # a tree that does not import *is* the violation for C20 (decided inside its run_case), for the
    # others it is inconclusive: they can observe nothing.
    ev = {
        "property_id": pid, "tier": a.tier, "seed": a.seed, "level": "exploration",
        "wall_s": round(time.time() - t0, 2), "violations": len(viol_out),
        "coverage": {
            "evaluations": len(results), "distinct_nontrivial": distinct_nontrivial,
            "rule": mod.RULE, "samples": samples,
            "classes": classes, "decided": n_decided,
            "anchors_reached": reach_counts, "anchors_unresolved": sorted(unresolved),
            "monitor_evaluations": events,
            "known_findings_observed": kf_counts,
            "known_findings_fixed": [k["id"] for k in findings if k.get("status") == "fixed"],
            "not_decided": skips,
            "verdict": "violated" if viol_out else ("inconclusive" if reasons else "held on what was observed"),
            "inconclusive_reasons": reasons,
        },
        "assumptions": list(getattr(mod, "ASSUMPTIONS", [])),
    }
    try:
        if not getattr(mod, "NO_PYREX_IMPORT", False) and not fatal:
            ev["coverage"]["line_coverage_of_anchor_modules"] = line_coverage_report(mod, lines_hit)
    except Exception:
        ev["coverage"]["line_coverage_error"] = traceback.format_exc()[-500:]
    if hasattr(mod, "extra_evidence"):
        try:
            ev["coverage"].update(mod.extra_evidence(results))
        except Exception:
            ev["coverage"]["extra_evidence_error"] = traceback.format_exc()[-500:]
    write_evidence(pid, ev)

    print(f"{pid} {a.tier} seed={a.seed}: {len(results)} cases, {n_decided} decided, "
          f"{distinct_nontrivial} distinct non-trivial, {events} monitor evaluations, "
          f"{time.time()-t0:.1f}s")
    for cname, cl in sorted(classes.items()):
        w = " ".join("%s=%.3g" % kv for kv in sorted(cl["worst"].items()))
        print(f"  class {cname:28s} gen={cl['generated']:5d} decided={cl['decided']:5d} "
              f"nontrivial={cl['nontrivial']:5d} violating={cl['violating']:3d} {w}")
    for fk, rep_ in ev["coverage"].get("line_coverage_of_anchor_modules", {}).items():
        print("  lines %s: %d of %d function-body lines reached; %d functions never entered" % (fk, rep_["reached"], rep_["executable_lines_in_function_bodies"], len(rep_["functions_never_entered"])))
    if reach_counts:
        print("  anchors: " + " ".join(f"{k.split(':')[-1]}={v}" for k, v in sorted(reach_counts.items())))
    for k in findings:
        if k.get("status") == "open":
            print(f"KNOWN-FINDING: property={pid} {k['id']} {k['mechanism']} (observed {kf_counts.get(k['id'], 0)} cases)")
    for e in errors:
        print(e)
    if viol_out:
        shown = {}
        for c, vs in viol_out:
            path = write_replay(pid, c, vs, a.tier, a.seed)
            cl = vs[0]["clause"]
            shown[cl] = shown.get(cl, 0) + 1
            if shown[cl] <= 3:
                print(f"  violated clause '{cl}' class={c.get('cls')}: {dumps(vs[0].get('detail'))[:400]}")
                print(f"VIOLATION property={pid} replay={path}")
        print(f"  {len(viol_out)} violating cases; clauses: {shown}")
        return 1
    if reasons:
        print(f"INCONCLUSIVE property={pid} reason=" + " | ".join(reasons))
        return 2
    return 0


if __name__ == "__main__":
    sys.exit(main())
