"""Run files of the repository's own test suite as a workload under a check's runtime contracts (see vt/pytest_contracts.py)."""
import json
import os
import subprocess
import sys
import tempfile

REPO = os.environ.get("VERIF_REPO", "/repo")
HERE = os.path.dirname(os.path.dirname(os.path.abspath(__file__)))


def run(check, files, timeout=1500):
    fd, out = tempfile.mkstemp(prefix="vt_suite_", suffix=".json")
    os.close(fd)
    env = dict(os.environ, VT_CONTRACT_CHECKS=check, VT_CONTRACT_OUT=out, PYTHONPATH=os.pathsep.join([HERE, REPO, os.path.join(HERE, ".deps")]))
    present = [f for f in files if os.path.exists(os.path.join(REPO, f))]
    try:
        r = subprocess.run([sys.executable, "-W", "ignore", "-m", "pytest", "-q", "-x", "-p", "no:cacheprovider", "-p", "vt.pytest_contracts", "--timeout=900"] + present,
                           cwd=REPO, env=env, capture_output=True, text=True, timeout=timeout)
        rep = json.load(open(out)) if os.path.getsize(out) else {}
        rep["returncode"] = r.returncode
        rep["tail"] = (r.stdout or r.stderr).strip().splitlines()[-1:] if (r.stdout or r.stderr).strip() else []
        rep["files"] = present
        return rep
    finally:
        try:
            os.remove(out)
        except OSError:
            pass
