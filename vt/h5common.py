"""Shared workload + shadow model for the HDF5 checks C11 / C12.

build_file() drives the real HDF5Writer through a generated add-sequence (including rejected adds and append sessions)
and maintains, from the sequence alone, what each accepted add must have stored (values are unique per event / particle /
antenna / ray so that a mix-up is identifiable).  getrec() reads one event back through the public accessors; cmp_model()
compares a model record with an observed one; same_obs() compares two observations (access paths).
"""
import os
import numpy as np

KEYS = ["particles", "triggers", "antenna_triggers", "waveforms", "rays", "noise"]


class FakePath:
    """Stands in for a ray path: the writer only reads `_metadata`."""

    def __init__(self, val):
        self.v = val

    @property
    def _metadata(self):
        return {"tof": float(self.v), "path_length": 2.0 * self.v + 0.5}


def random_options(rng):
    opts = {k: bool(rng.integers(0, 2)) for k in KEYS}
    if opts["antenna_triggers"] and not opts["triggers"]:
        opts["triggers"] = True
    opts["particles"] = True            # quantifier: option sets that record particles
    kind = int(rng.integers(0, 3))
    if kind == 0:
        req = True
    elif kind == 1:
        req = False
    else:
        req = [k for k in KEYS if rng.random() < 0.4]
    return opts, req


def trig_only_of(req):
    if isinstance(req, bool):
        to = {k: req for k in KEYS}
        if req:
            for k in ("particles", "triggers", "antenna_triggers"):
                to[k] = False
        return to
    return {k: (k in req) for k in KEYS}


def make_antennas(nant, noisy):
    import pyrex.antenna as pa

    class TA(pa.Antenna):
        def trigger(self, signal):
            return bool(np.max(np.abs(signal.values)) > 50)
    return [TA((0, 0, -100 - 10 * i), noisy=noisy, freq_range=(1e8, 3e8), noise_rms=1.0) for i in range(nant)]


def plan_events(rng, nev, nant, query_first_prob=0.5):
    """JSON-able plan of the add sequence (so that several files can be written from the same plan)."""
    plan = []
    for i in range(nev):
        nr = [int(rng.integers(0, 4)) for _ in range(nant)]
        maxw = max(nr) if nr else 0
        glob = bool(rng.integers(0, 2))
        tk = int(rng.integers(0, 3))
        if tk == 0:
            trig = glob
        elif tk == 1:
            trig = {"global": glob, "extra": bool(rng.integers(0, 2))}
        else:
            trig = {"global": glob, "perwave": [bool(rng.integers(0, 2)) for _ in range(maxw)], "extra": bool(rng.integers(0, 2))}
        plan.append({"npart": int(rng.integers(1, 6)), "nr": nr, "trig": trig, "query_first": bool(rng.random() < query_first_prob),
                     "bad": int(rng.integers(0, 8)) if rng.random() < 0.25 else None,
                     "flavors": [str(rng.choice(["nu_e", "nu_mu_bar", "nu_tau"])) for _ in range(5)], "kinds": [str(rng.choice(["cc", "nc"])) for _ in range(5)]})
    return plan


def open_writer(path, mode, opts, req, ants):
    from pyrex.io import File
    w = File(path, mode, write_particles=opts["particles"], write_triggers=opts["triggers"], write_antenna_triggers=opts["antenna_triggers"],
             write_rays=opts["rays"], write_noise=opts["noise"], write_waveforms=opts["waveforms"], require_trigger=req)
    w.open()
    w.set_detector(ants)
    return w


def do_add(w, ants, step, i, opts, req, on_reject=None, only_bad=False):
    """Perform the i-th planned add (preceded by a rejected add when planned).  Returns the model record.
    only_bad=True performs just the rejected add (used as the very last call of a session) and returns (None, rejected)."""
    from pyrex.particle import Particle, Event
    from pyrex.signals import Signal
    nant = len(ants)
    trig_only = trig_only_of(req)
    npart, nr, trig = step["npart"], step["nr"], step["trig"]
    # every third particle carries an explicitly given total weight (it then differs from survival x interaction weight)
    ps = [Particle(step["flavors"][k], (i, k, -100 - k), (1.0 + k, 2.0, -3.0 - i), 1e6 * (i + 1) + k, interaction_type=step["kinds"][k], weight=(0.375 + 0.01 * k) if k % 3 == 1 else None)
          for k in range(npart)]
    for k, p in enumerate(ps):
        p.survival_weight = 0.5 + 0.01 * k
        p.interaction_weight = 1e-3 * (i + 1)
    evn = Event(ps)
    for ai, a in enumerate(ants):
        a.clear(reset_noise=bool(i % 3 == 0))
        for r in range(nr[ai]):
            a.receive(Signal(np.arange(6) * 1e-9 + i * 1e-6 + r * 1e-7, np.ones(6) * (100 * ((i + r + ai) % 2) + i + 0.01 * r + 0.001 * ai + 1), Signal.Type.voltage))
    rp = [[FakePath(1000 * i + 10 * ai + r + 1) for r in range(nr[ai])] for ai in range(nant)]
    pol = [[(1 + i, ai + 0.25, r + 0.5) for r in range(nr[ai])] for ai in range(nant)]       # three different components per ray
    if step["query_first"]:
        for a in ants:
            a.all_waveforms            # class: antennas queried before add (noise master exists already)
    maxw = max(nr) if nr else 0
    glob = trig if isinstance(trig, bool) else trig["global"]
    rejected = 0
    T_ = bool(glob)
    written = lambda key: opts[key] and (not trig_only[key] or T_)
    will_reject = {0: written("rays"), 1: opts["triggers"], 2: opts["rays"] or opts["triggers"], 3: written("triggers") and maxw > 0,
                   4: written("rays") and maxw > 0, 5: written("particles"), 6: opts["triggers"], 7: opts["triggers"]}
    if step["bad"] is not None and will_reject[step["bad"]]:
        bad = step["bad"]
        try:
            if bad == 0:
                w.add(evn, triggered=trig, ray_paths=[[]] * (nant + 1), polarizations=[[]] * (nant + 1))
            elif bad == 1:
                w.add(evn, triggered={"nope": True}, ray_paths=rp, polarizations=pol)
            elif bad == 2:
                w.add(evn, triggered=None, ray_paths=None, polarizations=None)
            elif bad == 3:
                w.add(evn, triggered={"global": glob, "perwave": [True] * (max(maxw - 1, 0))} if maxw > 0 else "str", ray_paths=rp, polarizations=pol)
            elif bad == 4:
                w.add(evn, triggered=trig, ray_paths=rp, polarizations=[p_[:-1] for p_ in pol] if maxw > 0 else None)
            elif bad == 5:
                w.add("not an event", triggered=trig, ray_paths=rp, polarizations=pol)
            elif bad == 6:
                w.add(evn, triggered=np.True_, ray_paths=rp, polarizations=pol)      # a numpy bool is not a supported trigger type (TypeError, not ValueError)
            else:
                w.add(evn, triggered="yes", ray_paths=rp, polarizations=pol)
            accepted_bad = True
        except Exception as e:      # noqa: BLE001 -- a rejected add is the planned observation
            accepted_bad = False
            rejected = 1
            if on_reject is not None:
                on_reject(w, type(e).__name__)
        if accepted_bad:
            return "accepted-bad", rejected
    if only_bad:
        return None, rejected
    w.add(evn, triggered=trig, ray_paths=rp, polarizations=pol, events_thrown=2 + i % 3)
    T = bool(glob)
    rec = {"energies": [float(p.energy) for p in ps], "kinds": [p.interaction.kind.name for p in ps], "ids": [int(p.id.value) for p in ps],
           "vertices": [[float(x) for x in p.vertex] for p in ps], "weights": [[float(p.survival_weight), float(p.interaction_weight), float(p.weight)] for p in ps],
           "details": [[float(x) for x in p.direction] + [float(p.interaction.inelasticity), float(p.interaction.em_frac), float(p.interaction.had_frac)] for p in ps],
           "thrown": 2 + i % 3}
    if trig_only["particles"] and not T:
        rec.update(energies=[], kinds=[], ids=[], vertices=[], weights=[], details=[])
    rec["triggered"] = T if opts["triggers"] and (not trig_only["triggers"] or T) else None
    rec["rays"] = [[[float(rp[ai][r].v), 2.0 * rp[ai][r].v + 0.5] + [float(x) for x in pol[ai][r]] if r < nr[ai] else [0.0] * 5 for ai in range(nant)]
                   for r in range(maxw)] if opts["rays"] and (not trig_only["rays"] or T) else None       # [tof, path length, polarization x, y, z] per ray and antenna
    rec["waves"] = [[(np.array(ants[ai].all_waveforms[r].times), np.array(ants[ai].all_waveforms[r].values)) if r < nr[ai] else None for ai in range(nant)]
                    for r in range(maxw)] if opts["waveforms"] and (not trig_only["waveforms"] or T) else None
    rec["noise"] = [(np.array(a._noise_master.freqs), np.array(a._noise_master.amps), np.array(a._noise_master.phases)) if a._noise_master is not None else None
                    for a in ants] if opts["noise"] and (not trig_only["noise"] or T) else None
    inc_ant = opts["antenna_triggers"] and (not trig_only["antenna_triggers"] or T)
    comps = None
    if rec["triggered"] is not None and (inc_ant or isinstance(trig, dict)):
        comps = {}
        if inc_ant:
            for ai, a in enumerate(ants):
                comps["antenna_%d" % ai] = [bool(a.trigger(wv)) for wv in a.all_waveforms]
        if isinstance(trig, dict):
            for k, val in trig.items():
                if k != "global":
                    comps[k] = val if isinstance(val, bool) else list(val)
    rec["comps"] = comps
    rec["maxw"] = maxw
    return rec, rejected


def _rays_of(e):
    """[tof, path length, polarization x, y, z] per ray and antenna, through the one-attribute accessors."""
    tof = e.get_rays_info("tof")
    if len(tof) == 0:
        return []
    tof, pl, po = np.asarray(tof, float), np.asarray(e.get_rays_info("path_length"), float), np.asarray(e.get_rays_info("polarization"), float)
    return [[[float(tof[r][a]), float(pl[r][a])] + [float(x) for x in po[r][a]] for a in range(tof.shape[1])] for r in range(tof.shape[0])]


def getrec(e):
    out = {}
    try:
        pi = e.get_particle_info()
        n = len(pi)
        out["energies"] = [float(p["energy"]) for p in pi] if n > 0 else []
        out["kinds"] = [str(p["interaction_name"]) for p in pi] if n > 0 else []
        out["ids"] = [int(p["particle_id"]) for p in pi] if n > 0 else []
        out["vertices"] = [[float(p["vertex_x"]), float(p["vertex_y"]), float(p["vertex_z"])] for p in pi] if n > 0 else []
        out["weights"] = [[float(p["survival_weight"]), float(p["interaction_weight"]), float(p["weight"])] for p in pi] if n > 0 else []
        out["details"] = [[float(p["direction_x"]), float(p["direction_y"]), float(p["direction_z"]), float(p["interaction_inelasticity"]), float(p["interaction_em_frac"]), float(p["interaction_had_frac"])]
                          for p in pi] if n > 0 else []
    except ValueError as err:
        if "not saved" not in str(err):
            raise
        out.update(energies="NOTSAVED", kinds="NOTSAVED", ids="NOTSAVED", vertices="NOTSAVED", weights="NOTSAVED", details="NOTSAVED")
    for name, fn in (("triggered", lambda: None if e.triggered is None else bool(e.triggered)),
                     ("rays", lambda: _rays_of(e)),
                     ("waves", lambda: e.get_waveforms()), ("noise", lambda: e.noise_bases),
                     ("comps", lambda: sorted(e.get_triggered_components())),
                     ("comps_by_ray", lambda: {str(r_): sorted(e.get_triggered_components(ray=r_)) for r_ in (0, 1, 2, 3, "direct", "reflected", "Direct")})):
        try:
            out[name] = fn()
        except ValueError as err:
            if "not saved" not in str(err) and "was not saved" not in str(err):
                raise
            out[name] = "NOTSAVED"
    return out


def cmp_model(m, o, nant, where=""):
    """None when the observed record `o` is what the model record `m` says; else a (clause, detail) pair."""
    if m["energies"] == [] and o["energies"] == "NOTSAVED":
        pass
    else:
        for key in ("energies", "kinds", "ids", "vertices", "weights", "details"):
            if m[key] != o[key]:
                return ("particles of the i-th event == those of the i-th accepted add", {"field": key, "expected": m[key], "got": o[key], "where": where})
    if m["triggered"] is None:
        if o["triggered"] not in (None, "NOTSAVED"):
            return ("trigger not recorded for this event reads back as absent", {"got": o["triggered"], "where": where})
    elif o["triggered"] != m["triggered"]:
        return ("global trigger == the one recorded", {"expected": m["triggered"], "got": o["triggered"], "where": where})
    if m["rays"] is None or m["maxw"] == 0:
        if o["rays"] not in ([], "NOTSAVED"):
            return ("ray data not recorded for this event reads back as absent", {"got": o["rays"], "where": where})
    elif o["rays"] != m["rays"]:
        return ("ray data == those recorded for that add", {"expected": m["rays"], "got": o["rays"], "where": where})
    if m["waves"] is None or m["maxw"] == 0:
        if not (isinstance(o["waves"], str) or len(o["waves"]) == 0):
            return ("waveforms not recorded for this event read back as absent", {"got": len(o["waves"]), "where": where})
    else:
        wv = o["waves"]
        if isinstance(wv, str) or len(wv) != m["maxw"]:
            return ("waveforms == those recorded for that add", {"expected_count": m["maxw"], "got": wv if isinstance(wv, str) else len(wv), "where": where})
        for r in range(m["maxw"]):
            for ai in range(nant):
                mm = m["waves"][r][ai]
                if mm is None:
                    if len(wv[r][ai][0]) != 0:
                        return ("waveforms == those recorded for that add", {"slot": [r, ai], "expected": "empty", "where": where})
                elif not (np.array_equal(wv[r][ai][0], mm[0]) and np.array_equal(wv[r][ai][1], mm[1])):
                    return ("waveforms == those recorded for that add", {"slot": [r, ai], "where": where})
    if m["noise"] is None:
        if not (isinstance(o["noise"], str) or len(o["noise"]) == 0):
            return ("noise bases not recorded for this event read back as absent", {"where": where})
    else:
        nb = o["noise"]
        if isinstance(nb, str) or len(nb) != nant:
            return ("noise bases == those that produced the stored waveforms", {"got": nb if isinstance(nb, str) else len(nb), "where": where})
        for ai in range(nant):
            if m["noise"][ai] is None:
                if len(nb[ai][0]) != 0:
                    return ("noise bases == those that produced the stored waveforms", {"antenna": ai, "expected": "empty", "where": where})
            elif not all(np.array_equal(nb[ai][j], m["noise"][ai][j]) for j in range(3)):
                return ("noise bases == those that produced the stored waveforms", {"antenna": ai, "where": where})
    if m["comps"] is not None and m["maxw"] > 0 and not isinstance(o["comps"], str):
        expc = sorted(k for k, val in m["comps"].items() if (val if isinstance(val, bool) else any(val[:m["maxw"]])))
        if o["comps"] != expc:
            return ("triggered components == those recorded", {"expected": expc, "got": o["comps"], "where": where})
        # ... and waveform by waveform (ray 0 = "direct", 1 = "reflected"), where some component was recorded per waveform
        if any(not isinstance(val, bool) for val in m["comps"].values()) and isinstance(o.get("comps_by_ray"), dict):
            for r_, name_ in ((0, "0"), (1, "1"), (2, "2"), (3, "3"), (0, "direct"), (1, "reflected"), (0, "Direct")):
                exp_r = sorted(k for k, val in m["comps"].items() if (val if isinstance(val, bool) else (r_ < len(val) and val[r_]))) if r_ < m["maxw"] else []
                if o["comps_by_ray"].get(name_) != exp_r:
                    return ("triggered components of one waveform == those recorded for that waveform", {"ray": name_, "expected": exp_r, "got": o["comps_by_ray"].get(name_), "recorded": {k: val for k, val in m["comps"].items()}, "where": where})
    return None


def _norm(x):
    if isinstance(x, str) or x is None:
        return x
    if isinstance(x, (list, tuple)):
        return [_norm(y) for y in x]
    if isinstance(x, np.ndarray):
        if x.dtype == object:
            return [_norm(y) for y in x]
        return x.tolist()
    if isinstance(x, np.generic):
        return x.item()
    return x


def same_obs(a, b):
    """Two observations of the same event through different access paths."""
    for k in ("energies", "kinds", "ids", "vertices", "weights", "details", "triggered", "rays", "comps"):
        if _norm(a[k]) != _norm(b[k]):
            return k
    for k in ("waves", "noise"):
        if isinstance(a[k], str) or isinstance(b[k], str):
            if a[k] != b[k] if isinstance(a[k], str) and isinstance(b[k], str) else True:
                return k
            continue
        if _norm(a[k]) != _norm(b[k]):
            return k
    return None


def summarise(rec):
    return {k: (rec[k] if k in ("energies", "triggered", "rays", "comps") else ("..." if not isinstance(rec.get(k), str) else rec[k])) for k in ("energies", "triggered", "rays", "comps", "waves", "noise")}


def _eq(a, b):
    a, b = _norm(a), _norm(b)
    if isinstance(a, float) and isinstance(b, float) and a != a and b != b:
        return True
    if isinstance(a, list) and isinstance(b, list):
        return len(a) == len(b) and all(_eq(x, y) for x, y in zip(a, b))
    return a == b


def accessor_problem(e):
    """The narrowed forms of an event's read accessors (one attribute, one antenna, one ray) must return the same data as the
    full forms.  Returns None or (what differs, detail)."""
    def quiet(fn):
        try:
            return fn()
        except ValueError as err:
            if "not saved" in str(err) or "was not saved" in str(err):
                return None
            raise
    pi = quiet(e.get_particle_info)
    if pi is not None and len(pi) > 0:
        keys = list(pi[0].keys())
        for key in keys:
            col = e.get_particle_info(key)
            if not _eq(list(col), [p[key] for p in pi]):
                return "get_particle_info(%r)" % key, {"narrow": _norm(col), "full": [_norm(p[key]) for p in pi]}
        for name, pref in (("vertex", "vertex"), ("position", "vertex"), ("direction", "direction")):
            got = e.get_particle_info(name)
            want = [[p[pref + "_x"], p[pref + "_y"], p[pref + "_z"]] for p in pi]
            if not _eq(got, want):
                return "get_particle_info(%r)" % name, {"narrow": _norm(got), "full": _norm(want)}
        ii = e.get_particle_info("interaction_info")
        want_keys = sorted(k for k in keys if "interaction" in k)
        if sorted(ii) != want_keys:
            return "get_particle_info('interaction_info') keys", {"narrow": sorted(ii), "full": want_keys}
        for k, col in ii.items():
            if not _eq(list(col), [p[k] for p in pi]):
                return "get_particle_info('interaction_info')[%r]" % k, {"narrow": _norm(col), "full": [_norm(p[k]) for p in pi]}
    ri = quiet(e.get_rays_info)
    if ri is not None and len(ri) > 0 and len(ri[0]) > 0:
        keys = list(ri[0][0].keys())
        for key in keys:
            col = e.get_rays_info(key)
            want = [[cell[key] for cell in row] for row in ri]
            if not _eq(col, want):
                return "get_rays_info(%r)" % key, {"narrow": _norm(col), "full": _norm(want)}
        for name, pref in (("polarization", "polarization"), ("emitted_direction", "emitted"), ("received_direction", "received")):
            if pref + "_x" in keys:
                got = e.get_rays_info(name)
                want = [[[cell[pref + "_x"], cell[pref + "_y"], cell[pref + "_z"]] for cell in row] for row in ri]
                if not _eq(got, want):
                    return "get_rays_info(%r)" % name, {"narrow": _norm(got), "full": _norm(want)}
    wf = quiet(e.get_waveforms)
    if wf is not None and len(wf) > 0:
        R, A = wf.shape[0], wf.shape[1]
        for a_ in range(A):
            if not _eq(e.get_waveforms(antenna_id=a_), wf[:, a_]):
                return "get_waveforms(antenna_id=%d)" % a_, {}
        for r in range(R):
            for sp in [r, float(r)] + ([["direct", "Direct"], ["reflected", "REFLECTED"]][r] if r < 2 else []):
                if not _eq(e.get_waveforms(waveform_type=sp), wf[r]):
                    return "get_waveforms(waveform_type=%r)" % (sp,), {}
                if not _eq(e.get_waveforms(A - 1, sp), wf[r, A - 1]):
                    return "get_waveforms(%d, %r)" % (A - 1, sp), {}
        beyond = e.get_waveforms(waveform_type=R)
        if len(beyond) != 0:
            return "get_waveforms(waveform_type beyond the stored rays)", {"returned": len(beyond)}
    return None
