"""Small helpers shared by the check modules."""
import zlib
import numpy as np

EPS = float(np.finfo(float).eps)


def rng_for(pid, seed, *extra):
    return np.random.default_rng([zlib.crc32(pid.encode()), int(seed)] + [int(e) for e in extra])


def case_rng(case, salt=0):
    return np.random.default_rng([int(case.get("npseed", 0)), int(case.get("idx", 0)), int(salt)])


def relerr(a, b, floor=0.0):
    a = np.asarray(a, float)
    b = np.asarray(b, float)
    d = np.max(np.abs(a - b)) if a.size else 0.0
    s = max(np.max(np.abs(b)) if b.size else 0.0, np.max(np.abs(a)) if a.size else 0.0, floor)
    return float(d / s) if s > 0 else float(d)


def fl(x):
    """float or list of floats for JSON"""
    a = np.asarray(x)
    if a.ndim == 0:
        return float(a)
    return [float(v) for v in a.ravel()] if a.ndim == 1 else a.tolist()


class V:
    """Collects violations, metrics and monitor-evaluation counts for one case."""

    def __init__(self):
        self.violations = []
        self.metrics = {}
        self.events = 0

    def check(self, ok, clause, **detail):
        self.events += 1
        if not ok:
            if len(self.violations) < 12:
                self.violations.append({"clause": clause, "detail": detail})
            return False
        return True

    def close(self, clause, dev, tol, **detail):
        """dev <= tol, recording dev/tol as a metric (so drift is visible long before it alarms)."""
        self.events += 1
        dev = float(dev)
        ratio = dev / tol if tol > 0 else (0.0 if dev == 0 else float("inf"))
        if not (ratio <= self.metrics.get(clause, -1.0)):
            self.metrics[clause] = ratio
        if not (dev <= tol):
            if len(self.violations) < 12:
                self.violations.append({"clause": clause, "detail": dict(detail, deviation=dev, tolerance=float(tol))})
            return False
        return True

    def metric(self, name, val):
        val = float(val)
        if not (val <= self.metrics.get(name, float("-inf"))):
            self.metrics[name] = val

    def result(self, decided=True, nontrivial=True, sample=None, skip=None):
        return {"decided": decided, "nontrivial": nontrivial, "violations": self.violations,
                "metrics": self.metrics, "events": self.events, "sample": sample, "skip": skip}
