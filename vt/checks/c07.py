"""C07 — Askaryan pulses obey their scaling laws and fail gracefully.

Monitor: the real ARZ / AVZ / ZHS models are evaluated at the public boundary (Model(times, particle, angle, distance,
ice, t0).values); the oracle for every clause is a second execution on a transformed input (metamorphic relations).
"""
import numpy as np
from vt.util import V, EPS, case_rng, rng_for
from vt import gen

PROPERTY = "C07"
TITLE = "Askaryan scaling laws"
TECHNIQUE = ('runtime monitoring, metamorphic oracle: every Askaryan model executed on transformed inputs (distance, sign of the angle, joint and whole-sample time shifts inside and across the grid, energy scaling, zero energy) and the recorded fields compared')
ANCHORS = ["pyrex.askaryan:ARZAskaryanSignal.shower_signal", "pyrex.askaryan:ARZAskaryanSignal.__init__",
           "pyrex.askaryan:AVZAskaryanSignal.__init__", "pyrex.askaryan:ZHSAskaryanSignal.__init__"]
RULE = ("one case = (model ARZ/AVZ/ZHS, shower EM/hadronic/mixed, energy 1e-3..1e12 GeV, vertex depth, grid N odd/even "
        "64..4000 with dt 1e-11..5e-10 and offset +-1 us, fractional-sample t0, viewing angle = cone + offset from "
        "{0,0.05..40 deg} on either side or a special angle in [-pi,pi], distance 1 m..10 km) evaluated under the eight "
        "relations (about 14 model executions); non-trivial = the reference pulse is non-zero and finite so that the "
        "relations compare real pulses; distinct = hash of the case")
ASSUMPTIONS = ["ARZ may place its pulse with a 22 ps jitter (two int() truncations on its internal fine grid of <= 10 ps): |dv| <= 2.2e-11 max|diff v|/dt + 1e-6 peak", "the reference shower time t0 lies inside the time grid (15 % margin); whole-sample moves also lead up to min(40, N/2 - 3) samples outside it",
               "peak monotonicity is decided only between pulses resolved by >= 4 samples and offsets >= x2 and >= 1 degree apart, and a rise of the sampled peak below 25 % is not counted",
               "ARZ offsets below 1e-3 rad (other than exactly on the cone) are not generated (cost of the internal convolution)"]
BUDGET = {"quick": 900, "thorough": 7200}
CASE_TIMEOUT = {"quick": 300, "thorough": 600}
MODELS = ["ARZ", "AVZ", "ZHS"]


def gen_cases(tier, seed):
    rng = rng_for(PROPERTY, seed)
    n = 600 if tier == "quick" else 18000
    out = []
    for i in range(n):
        model = MODELS[i % 3]
        kind = ["em", "had", "mixed"][(i // 3) % 3]
        cls = ["offcone", "oncone", "special-angle", "extreme-energy"][(i // 9) % 4]
        E = float(10 ** rng.uniform(4, 11)) if cls != "extreme-energy" else float(10 ** rng.choice([rng.uniform(-3, 3), rng.uniform(11, 12)]))
        N = int(rng.choice([64, 256, 257, 600, 1001, 4000] if tier == "thorough" else [64, 256, 257, 600, 1001]))
        dt = float(rng.choice([1e-11, 2e-11, 5e-11, 1e-10, 2.5e-10, 5e-10]))
        dth = float(np.radians(rng.choice([0.05, 0.3, 1, 2, 5, 10, 20, 40])) * rng.choice([-1, 1]))
        if cls == "oncone":
            dth = 0.0
        special = None
        if cls == "special-angle":
            special = float(rng.choice([0.0, np.pi, -np.pi, np.pi / 2, -np.pi / 2, 3.0, -0.01]))
        nice = bool(rng.random() < 0.5)
        if not nice:
            dt = float(dt * (1 + rng.uniform(0.01, 0.2)))      # off the knife-edge of ARZ's int(dt/10 ps) decisions
        out.append({"nice_dt": nice, "cls": "%s:%s" % (model, cls), "model": model, "shower": kind, "energy": E, "zv": -float(rng.uniform(5, 2500)),
                    "N": N, "dt": dt,
                    # absolute position of the window: microseconds away from t = 0, within a fraction of its own length of it, or starting at 0
                    "offset": [float(rng.uniform(-1e-6, 1e-6)), float(rng.uniform(-0.6, 0.3) * N * dt), 0.0][int(rng.integers(0, 3))], "t0_frac": float(rng.uniform(0.3, 0.7)),
                    # position of the shower time between two samples: anywhere, or exactly half-way / a quarter (where a rounding rule shows)
                    "t0_sub": [float(rng.uniform(0.05, 0.95)), float(rng.uniform(0.05, 0.95)), 0.5, 0.25][int(rng.integers(0, 4))], "dtheta": dth, "special": special, "R": float(10 ** rng.uniform(0, 4)),
                    "ice": ["antarctic", "greenland"][int(rng.integers(0, 2))]})
    return out


def rmsdur(v):
    p = v * v
    tot = p.sum()
    if tot == 0:
        return 0.0
    k = np.arange(len(v))
    mu = (k * p).sum() / tot
    return float(np.sqrt(((k - mu) ** 2 * p).sum() / tot))


def run_case(case):
    import pyrex.askaryan as ask
    v = V()
    rng = case_rng(case)
    cls = {"ARZ": ask.ARZAskaryanSignal, "AVZ": ask.AVZAskaryanSignal, "ZHS": ask.ZHSAskaryanSignal}[case["model"]]
    em, had = {"em": (1.0, 0.0), "had": (0.0, 1.0), "mixed": (0.6, 0.4)}[case["shower"]]
    ice = gen.make_ice({"kind": case["ice"]})
    zv, E = case["zv"], case["energy"]
    vertex = (float(rng.uniform(-500, 500)), float(rng.uniform(-500, 500)), zv)

    def particle(energy):
        return gen.make_particle(energy, em, had, vertex=vertex)

    N, dt = case["N"], case["dt"]
    ts = case["offset"] + np.arange(N) * dt
    t0 = float(ts[0] + (np.floor(case["t0_frac"] * N) + case["t0_sub"]) * dt)       # a whole number of samples plus the chosen fraction
    thc = float(np.arccos(1 / ice.index(zv)))
    psi = case["special"] if case["special"] is not None else thc + case["dtheta"]
    R = case["R"]
    arz = case["model"] == "ARZ"
    if arz and 0 < abs(psi - thc) < 1e-3:
        psi = thc + 1e-3

    def run(times=ts, p=None, angle=psi, dist=R, t_0=t0):
        snap = np.array(times, float)
        sig = cls(times, p if p is not None else particle(E), angle, dist, ice, t_0)
        vals = np.array(sig.values)
        # the grid is the caller's: building and evaluating a pulse (two showers share it) must neither move it nor report another one
        v.check(np.array_equal(np.asarray(times, float), snap), "building and evaluating a pulse leaves the caller's time grid unchanged", model=case["model"], shower=case["shower"])
        v.check(np.array_equal(np.asarray(sig.times, float), snap), "the pulse is reported on the requested time grid", model=case["model"], shower=case["shower"])
        return vals

    ref = run()
    sample = {"model": case["model"], "shower": case["shower"], "energy_GeV": E, "vertex_depth": zv, "N": N, "dt": dt,
              "viewing_angle_deg": float(np.degrees(psi)), "cone_deg": float(np.degrees(thc)), "distance": R}
    # (5) finite everywhere, right length
    ok = v.check(ref.shape == (N,) and bool(np.all(np.isfinite(ref))), "field is finite everywhere, one value per sample",
                 shape=list(ref.shape), nonfinite=int(np.sum(~np.isfinite(ref))) if ref.shape == (N,) else -1)
    pk = float(np.max(np.abs(ref))) if ok else 0.0
    sample["peak"] = pk
    # (6) zero energy -> all-zero field of the right length
    z = run(p=particle(0.0))
    v.check(z.shape == (N,) and not np.any(z), "zero shower energy gives an all-zero field of the right length", shape=list(z.shape), maxabs=float(np.max(np.abs(z))) if z.size else 0.0)
    if not ok or pk == 0.0:
        return v.result(decided=True, nontrivial=False, sample=sample)
    # relations are measured against the pulse's natural magnitude: far from the cone the pulse is suppressed by
    # exp(-huge) and consists of FFT round-off of the on-cone spectrum only
    on_peak = float(np.max(np.abs(run(angle=thc))))
    sc = max(pk, 1e-6 * on_peak)
    sample["on_cone_peak"] = on_peak
    # ARZ works on an internal fine grid dt/divider with divider = int(dt/10 ps)+1 and places the pulse with
    # int((t_start+10 ns)/fine step).  For a "nice" dt (a multiple of 10 ps, the kernel default included) both
    # quotients are integers in exact arithmetic, so the rounding of times[1]-times[0] decides them: the pulse may
    # move by up to two fine steps (22 ps) and the internal resolution may change by one divider step (measured
    # <= 1.3e-3 of the peak, allowed 5e-3).  Off the knife-edge neither happens and the relation is tight.
    if arz and case.get("nice_dt", True):
        jit = 2.2e-11 * float(np.max(np.abs(np.diff(ref)))) / dt + 5e-3 * sc
    elif arz:
        jit = 1e-7 * sc        # off the knife-edge the placement is exact: measured <= 3e-10 of the peak over 2e4 cases (after de2ce59)
    else:
        jit = 0.0
    # (1) exactly inversely proportional to the viewing distance
    c = float(rng.choice([2.5, 0.1, 37.0]))
    far = run(dist=c * R)
    v.close("field is inversely proportional to the viewing distance", float(np.max(np.abs(ref * R - far * c * R))) / (sc * R), 1e-9)   # FFT round-off relative to a strongly suppressed off-cone peak reaches 2e-11
    # (2) depends on the viewing angle only through its magnitude
    neg = run(angle=-psi)
    v.close("field depends only on the magnitude of the viewing angle", float(np.max(np.abs(ref - neg))) / sc, 1e-9, angle=float(psi))
    # (3) joint shift of grid and shower time
    sh = float(rng.uniform(-1e-6, 1e-6))
    joint = run(times=ts + sh, t_0=t0 + sh)
    cond = 8 * EPS * (abs(case["offset"]) + abs(sh) + N * dt) / dt      # conditioning of dt and t0 - t under the offset
    slope = float(np.max(np.abs(np.diff(ref)))) / sc
    v.close("unchanged when grid and shower time are shifted together", float(np.max(np.abs(ref - joint))) / sc, 1e-6 + jit / sc + cond * slope * 4,
            shift=sh, model=case["model"])
    # (4) whole-sample shift of the shower time alone: inside the grid, and (one case in three) across an end of the grid to a
    # shower time up to 40 samples outside it, where only the tail / the precursor of the pulse is left in the window
    k0 = case["t0_frac"] * N
    m_lo, m_hi = int(np.ceil(0.15 * N - k0)), int(np.floor(0.85 * N - k0))
    m = int(rng.integers(max(m_lo, -40), min(m_hi, 40) + 1))
    moves = [(m, "inside the grid")]
    if rng.random() < 0.34:
        # ... but no farther than half a window: beyond that the models return zeros by design, because the periodic image
        # of their FFT grid would be nearer to the window than the pulse itself
        beyond = int(rng.integers(1, max(2, min(41, N // 2 - 2))))
        moves.append(((-int(np.floor(k0)) - beyond) if rng.random() < 0.5 else (N - int(np.floor(k0)) + beyond - 1), "to a shower time outside the grid"))
    for m, where in moves:
        if m == 0:
            continue
        moved = run(t_0=t0 + m * dt)
        lo, hi = (m, N - 1) if m > 0 else (0, N - 1 + m)
        if hi - lo < 3:
            continue
        d5 = float(np.max(np.abs(moved[lo:hi] - ref[lo - m:hi - m])))
        v.check(bool(np.all(np.isfinite(moved))), "field is finite everywhere, one value per sample", shape=list(moved.shape), nonfinite=int(np.sum(~np.isfinite(moved))), shower_time=where)
        # observable of a mechanism (see fx_arz_placement_truncation): does "10 ns after the start of the window" lie between the two shower times?
        crosses = bool(((ts[0] - t0) + 10e-9 >= 0) != ((ts[0] - (t0 + m * dt)) + 10e-9 >= 0))
        v.close("moves by whole samples when the shower time moves by whole samples", d5 / sc, 1e-6 + jit / sc + cond * slope * 4, m=m, model=case["model"], shower_time=where,
                crosses_10ns_after_window_start=crosses)
    # (4b) a pulse that is well contained in the window (edges below 1e-3 of the peak) and is moved by 1.5 ... 4 windows leaves
    # at most its far tail behind: nothing may re-enter from the periodic images of the models' FFT grids
    edge = max(float(np.max(np.abs(ref[:max(N // 10, 1)]))), float(np.max(np.abs(ref[-max(N // 10, 1):]))))
    if edge < 1e-3 * pk and rng.random() < 0.5:
        far = float(rng.choice([-1, 1])) * float(rng.uniform(1.5, 4.0)) * N
        gone = run(t_0=t0 + int(far) * dt)
        v.check(bool(np.all(np.isfinite(gone))), "field is finite everywhere, one value per sample", shape=list(gone.shape), nonfinite=int(np.sum(~np.isfinite(gone))), shower_time="far outside the grid")
        v.close("a contained pulse moved by more than a window leaves at most its far tail in the window", float(np.max(np.abs(gone))) / pk, 5e-3, moved_by_windows=far / N, model=case["model"])
    # (4c) the pulse owns its grid: in-place changes the caller makes to the array afterwards (before or after the first read) reach neither
    # its times nor its values
    for read_first in (True, False):
        mine = np.array(ts)
        sig_ = cls(mine, particle(E), psi, R, ice, t0)
        if read_first:
            sig_.values
        mine += 7 * dt
        v.check(np.array_equal(np.asarray(sig_.times), ts), "a pulse does not follow later in-place changes of the caller's grid array (times)", read_before_the_change=read_first, model=case["model"])
        v.close("a pulse does not follow later in-place changes of the caller's grid array (values)", float(np.max(np.abs(np.array(sig_.values) - ref))) / sc if np.shape(sig_.values) == ref.shape else float("inf"),
                1e-6 + jit / sc, read_before_the_change=read_first, model=case["model"])
    # (7) on the cone, EM showers: proportional to the energy
    if case["shower"] == "em":
        f_ = 3.7
        a1 = run(angle=thc)
        a2 = run(angle=thc, p=particle(f_ * E))
        if np.max(np.abs(a1)) > 0:
            v.close("on-cone EM pulse is proportional to the shower energy", float(np.max(np.abs(a2 - f_ * a1))) / float(np.max(np.abs(a2))), 1e-9)
    # (8) peak amplitude largest on the cone and falling with angular distance on either side (resolved pulses only)
    offs = np.radians([0.0, 1.0, 2.5, 6.0, 15.0, 40.0])
    side = int(rng.choice([-1, 1]))
    amps, res = [], []
    for o in offs:
        w = run(angle=thc + side * o)
        # the *sampled* maximum of a pulse with a cusp depends on where the samples fall (up to a third at dt = 20 ps): the peak
        # compared between angles is the largest sampled value over four placements of the shower time within one sample
        amps.append(max(float(np.max(np.abs(w))), *[float(np.max(np.abs(run(angle=thc + side * o, t_0=t0 + q_ * dt)))) for q_ in (0.25, 0.5, 0.75)]))
        res.append(rmsdur(w))
    decided_pairs, unresolved = 0, 0
    for i in range(len(offs) - 1):
        if res[i] >= 4 / 2.35 and res[i + 1] >= 4 / 2.35 and amps[i] > 0:
            decided_pairs += 1
            # sampled peaks of pulses a few samples wide, and the sin(theta)/sin(theta_c) factor of AVZ/ARZ, move the
            # maximum by up to ~8 % between neighbouring offsets (measured); a 25 % rise is taken as a real violation
            v.check(amps[i + 1] <= amps[i] * 1.25, "peak amplitude falls with angular distance from the cone",
                    inner_deg=float(np.degrees(offs[i])), outer_deg=float(np.degrees(offs[i + 1])), inner_peak=amps[i], outer_peak=amps[i + 1], side=side, dt=dt)
        else:
            unresolved += 1
    v.metric("monotone_pairs_decided", decided_pairs)
    sample.update({"monotone_pairs_decided": decided_pairs, "monotone_pairs_unresolved": unresolved})
    res_ = v.result(decided=True, nontrivial=True, sample=sample)
    res_["unresolved_pairs"] = unresolved
    res_["decided_pairs"] = decided_pairs
    return res_


def extra_evidence(results):
    return {"monotone_pairs_decided": sum(r.get("decided_pairs", 0) for r in results),
            "monotone_pairs_unresolved_inconclusive": sum(r.get("unresolved_pairs", 0) for r in results)}


def fx_zhs_signed_angle(case, viol):
    return case["model"] == "ZHS" and viol["clause"] == "field depends only on the magnitude of the viewing angle"


def fx_zhs_zero_energy(case, viol):
    return case["model"] == "ZHS" and viol["clause"] == "unexpected exception from pyrex" and "ndarray" in viol["detail"].get("message", "")


def kf_arz_low_energy_hadronic(case, viol):
    """Gaisser-Hillas profile with x_max <= interaction length: negative base to a fractional power -> NaN field."""
    had = {"em": 0.0, "had": 1.0, "mixed": 0.4}[case["shower"]] * case["energy"]
    crit, rad, inter = 17.006e-2, 39.562, 113.03
    return case["model"] == "ARZ" and crit < had <= crit * float(np.exp(inter / rad)) * 1.0001 and viol["clause"] == "field is finite everywhere, one value per sample"


def fx_avz_t0_before_grid(case, viol):
    return case.get("model") == "AVZ" and viol["clause"].startswith("moves by whole samples") and viol["detail"].get("shower_time") == "to a shower time outside the grid"


def fx_arz_placement_truncation(case, viol):
    return case.get("model") == "ARZ" and viol["clause"].startswith("moves by whole samples") and viol["detail"].get("crosses_10ns_after_window_start") is True
