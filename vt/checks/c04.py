"""C04 — signals keep times/values aligned, copy independently, combine pointwise.

Monitor shapes: (b) icontract post-condition on the real Signal.__init__ ("one value per time sample"),
(a) operation histories checked step by step against a small reference model, plus an *alias graph*
(np.shares_memory / list identity between every result and every operand/argument) and a
mutate-the-result probe (mutating a result must not move any operand or caller-owned array).
"""
import numpy as np
from vt.util import V, case_rng, rng_for

PROPERTY = "C04"
TITLE = "Signals aligned, independent copies, pointwise combination"
NEEDS_ICONTRACT = True
TECHNIQUE = ("runtime monitoring: operation histories on real Signal objects checked against an alias graph and a pointwise reference model; icontract post-condition on Signal.__init__ (also evaluated while the repository's own tests run)")
ANCHORS = ["pyrex.signals:Signal.__add__", "pyrex.signals:EmptySignal.__add__", "pyrex.signals:FunctionSignal.__add__",
           "pyrex.signals:Signal.__radd__", "pyrex.signals:Signal.with_times", "pyrex.signals:EmptySignal.with_times",
           "pyrex.signals:FunctionSignal.with_times", "pyrex.signals:Signal.copy", "pyrex.signals:EmptySignal.copy",
           "pyrex.signals:FunctionSignal.copy", "pyrex.signals:Signal.shift", "pyrex.signals:FunctionSignal.shift"]
RULE = ("one case = one history of 1-12 operations (construct with short/equal/long value arrays, copy, with_times on "
        "sub/super/disjoint/off-grid windows given as ndarray or list, +, sum, *, reflected *, /, *=, /=, shift) over a pool "
        "of Signal/EmptySignal/FunctionSignal/GaussianNoise/FFTThermalNoise/FullThermalNoise operands of the four value "
        "types on grids of 1..40 samples with offsets up to 1e9 steps; non-trivial = at least one operation produced a "
        "result object that went through the alias graph and the mutate probe; distinct = hash of the case (seeded)")
ASSUMPTIONS = ["integer-typed time/value arrays are only used for non-in-place operations",
               "EmptySignal.values is not poked element-wise (not a public mutation)"]
BUDGET = {"quick": 300, "thorough": 3600}

_STATE = {"init_evals": 0}


class PostBroken(AssertionError):
    pass


def _aligned(self):
    _STATE["init_evals"] += 1
    return len(self.values) == len(self.times)


def setup():
    import icontract
    import pyrex.signals as sg
    if not getattr(sg.Signal.__init__, "_vt_wrapped", False):
        wrapped = icontract.ensure(_aligned, error=PostBroken)(sg.Signal.__init__)
        wrapped._vt_wrapped = True
        sg.Signal.__init__ = wrapped


def gen_cases(tier, seed):
    rng = rng_for(PROPERTY, seed)
    n = 2000 if tier == "quick" else 60000
    out = []
    for i in range(n):
        cls = ["short-grid", "ordinary", "huge-offset", "mixed-types"][i % 4]
        N = int(rng.integers(1, 4)) if cls == "short-grid" else int(rng.integers(3, 40))
        dt = float(rng.choice([1.0, 0.5, 1e-9, 3.3e-10]))
        off = float(rng.uniform(-5, 5) * dt) if cls != "huge-offset" else float(rng.choice([-1, 1]) * 10 ** rng.uniform(3, 9) * dt)
        out.append({"cls": cls, "N": N, "dt": dt, "offset": off, "nops": int(rng.integers(1, 13)),
                    "types": ["undefined", "voltage", "field", "power"] if cls == "mixed-types" else ["undefined", "voltage"]})
    out.append({"cls": "repo-suite", "files": ['tests/test_signals.py', 'tests/test_askaryan.py', 'tests/test_antenna.py', 'tests/test_ray_tracing.py']})      # the repository's own tests as one more workload for the contract
    return out


FUNCS = {"sin": np.sin, "cos": np.cos, "gauss": lambda t: np.exp(-t * t), "lin": lambda t: 0.5 * t + 1.0}


def run_case(case):
    if case["cls"] == "repo-suite":
        from vt import suite
        v_ = V()
        rep = suite.run("c04", case["files"])
        evals = sum(sum(x for x in d.values() if isinstance(x, int)) for d in rep.get("contract_evaluations", {}).values())
        v_.events += evals
        for f_ in rep.get("contract_failures", []):
            v_.check(False, "contract holds while the repository's own tests run", test=f_["test"], message=f_["message"])
        sample_ = {"workload": "repository test files under the contract", "files": rep.get("files"), "tests_collected": rep.get("collected"), "contract_evaluations": evals, "pytest": rep.get("tail")}
        if rep.get("returncode") != 0 and not rep.get("contract_failures"):
            return v_.result(decided=False, nontrivial=False, sample=sample_, skip="repository tests did not pass under the plugin")
        return v_.result(decided=True, nontrivial=evals >= 50, sample=sample_)
    import pyrex.signals as sg
    Signal, EmptySignal, FunctionSignal = sg.Signal, sg.EmptySignal, sg.FunctionSignal
    v = V()
    rng = case_rng(case)
    N, dt, off = case["N"], case["dt"], case["offset"]
    t = off + np.arange(N) * dt
    types = case["types"]
    defn = {}          # id(obj) -> list of (funcname, scale, factor, origin) when the object is an unfiltered function signal
    keep = []          # every object ever created stays alive, so that id() keys are never reused within a case
    hist = []

    def snapshot(o):
        return (np.array(o.times).tobytes(), np.array(o.values).tobytes(), o.value_type)

    def arrays_of(o):
        out = [o.times]
        if not isinstance(o, FunctionSignal):
            out.append(o.values)
        return [a for a in out if isinstance(a, np.ndarray)]

    def lists_of(o):
        if isinstance(o, FunctionSignal):
            return [o._functions, o._t0s, o._buffers, o._factors, o._filters] + list(o._buffers) + list(o._filters)
        return []

    def mk(kind, vt):
        if kind == "S":
            return Signal(t, rng.normal(size=N), vt)
        if kind == "E":
            return EmptySignal(t, vt)
        if kind == "F":
            name = list(FUNCS)[int(rng.integers(0, len(FUNCS)))]
            scale = 1.0 / dt
            f = FunctionSignal(t, _scaled(name, scale, scalar_only=bool(rng.random() < 0.3)), vt)
            defn[id(f)] = [(name, scale, 1.0, 0.0)]
            if rng.random() < 0.3 and N >= 2:
                f.filter_frequencies(lambda fr: 1 / (1 + 1j * fr * dt), force_real=True)
                defn[id(f)] = None
                filtered.add(id(f))
            return f
        if kind == "G":
            g = sg.GaussianNoise(t, 1.0)
            g.value_type = vt
            return g
        if kind == "T" and N >= 2:
            n = sg.FFTThermalNoise(t, (0.05 / dt, 0.3 / dt), rms_voltage=1.0)
            n.value_type = vt
            return n
        if kind == "U" and N >= 2:
            n = sg.FullThermalNoise(t, (0.05 / dt, 0.3 / dt), rms_voltage=1.0)
            n.value_type = vt
            return n
        return Signal(t, rng.normal(size=N), vt)

    filtered = set()   # ids of function signals carrying a frequency filter (cannot be evaluated on one sample: no dt)

    def new_grid(a):
        # workload steering only (not an oracle): a filtered function signal cannot be evaluated on one sample
        has_filter = isinstance(a, FunctionSignal) and any(len(g) for g in a._filters)
        n2 = int(rng.integers(2 if has_filter else 1, 30))
        mode = rng.integers(0, 8)
        a0, a1 = a.times[0], a.times[-1]
        span = max(a1 - a0, dt)
        if mode == 0:      # sub-window on the grid
            i0 = int(rng.integers(0, len(a.times)))
            g = a.times[i0:i0 + n2].copy()
        elif mode == 1:    # super-window
            g = a0 - rng.uniform(0, 2) * span + np.arange(n2 + len(a.times)) * dt
        elif mode == 2:    # disjoint
            g = a1 + span * rng.uniform(1, 3) + np.arange(n2) * dt
        elif mode == 3:    # off-grid, different step
            g = a0 + rng.uniform(-1, 1) * span + np.arange(n2) * dt * rng.choice([0.5, 0.37, 2.0])
        elif mode == 4:    # identical grid
            g = a.times.copy()
        elif mode == 5:    # same length and end points, different interior samples (irregular grid)
            g = np.array(a.times, float)
            if len(g) > 2:
                inner = np.sort(rng.uniform(g[0], g[-1], size=len(g) - 2))
                keep = rng.random(len(inner)) < 0.4
                g[1:-1] = np.where(keep, g[1:-1], inner)
                g = np.sort(g)
        elif mode == 6:    # irregular grid over a wider span
            g = np.sort(rng.uniform(a0 - 0.5 * span, a1 + 0.5 * span, size=n2 + 1))
        else:              # same start and length, different step
            g = a0 + np.arange(len(a.times)) * dt * float(rng.choice([0.5, 2.0, 3.0]))
        if has_filter and (len(g) < 2 or mode in (5, 6)):
            g = a.times.copy()
        return np.array(g, float)

    pool = [mk(str(rng.choice(list("SSEFFGTU"))), str(rng.choice(types))) for _ in range(3)]
    keep.extend(pool)
    args = []
    results = 0
    tol = 1e-12

    def eq(res, exp, what, op, scale=None):
        exp = np.asarray(exp)
        exp = exp.astype(complex) if np.iscomplexobj(exp) else exp.astype(float)
        sc = max(1.0, float(np.max(np.abs(exp))) if exp.size else 1.0) if scale is None else scale
        got = np.asarray(res.values)
        got = got.astype(complex) if (np.iscomplexobj(got) or np.iscomplexobj(exp)) else got.astype(float)
        if not v.check(got.shape == exp.shape, "one value per time sample", op=op, nvalues=int(got.size), expected=int(exp.size), history=hist[-4:]):
            return
        v.close(what, float(np.max(np.abs(got - exp))) if exp.size else 0.0, tol * sc * 100, op=op, history=hist[-4:])

    for step in range(case["nops"]):
        op = str(rng.choice(["copy", "with_times", "with_times", "add", "add", "sum", "mul", "rmul", "div", "imul", "idiv", "shift", "construct", "typeadd", "regridadd", "buffers"]))
        ia, ib = int(rng.integers(0, len(pool))), int(rng.integers(0, len(pool)))
        a, b = pool[ia], pool[ib]
        before = [snapshot(o) for o in pool]
        argsnap = [np.array(x).copy() for x in args]
        res, inplace, exp, exp_type = None, (), None, None
        hist.append("%s(%s#%d,%s#%d)" % (op, type(a).__name__, ia, type(b).__name__, ib))
        try:
            if op == "copy":
                res = a.copy()
                exp = np.array(a.values)
                exp_type = a.value_type
                v.check(type(res) is type(a) or isinstance(a, (sg.GaussianNoise, sg.FFTThermalNoise, sg.FullThermalNoise)), "copy keeps the signal kind", a=type(a).__name__, res=type(res).__name__)
                v.check(np.array_equal(res.times, a.times), "copy keeps the times")
                defn[id(res)] = defn.get(id(a))
            elif op == "with_times":
                nt = new_grid(a)
                as_list = bool(rng.random() < 0.3)
                arg = nt.tolist() if as_list else nt
                args.append(arg)
                argsnap.append(np.array(arg).copy())
                res = a.with_times(arg)
                exp_type = a.value_type
                hist[-1] += "[list]" if as_list else "[ndarray]"
                v.check(isinstance(res.times, np.ndarray), "re-gridded signal holds its times as an array", got=type(res.times).__name__, argument="list" if as_list else "ndarray", operand=type(a).__name__)
                v.check(len(res.times) == len(nt) and np.array_equal(np.asarray(res.times), nt), "with_times uses the requested grid")
                if isinstance(a, EmptySignal):
                    exp = np.zeros(len(nt))
                elif not isinstance(a, FunctionSignal):
                    exp = np.interp(nt, a.times, a.values, left=0, right=0)
                    # stored value at shared sample times, zero outside the span: stated separately, exactly
                    got = np.asarray(res.values)
                    if got.shape == nt.shape:
                        shared = np.isin(nt, a.times)
                        idx = np.searchsorted(a.times, nt[shared])
                        v.check(np.array_equal(got[shared], np.asarray(a.values)[idx]), "re-gridding returns the stored value at shared sample times")
                        outside = (nt < a.times[0]) | (nt > a.times[-1])
                        v.check(not np.any(got[outside]), "re-gridding gives zero outside the original span")
                elif defn.get(id(a)) is not None:
                    exp = sum(c * FUNCS[name]((nt - d) * sc_) for name, sc_, c, d in defn[id(a)])
                defn[id(res)] = defn.get(id(a))
            elif op in ("add", "typeadd"):
                if op == "typeadd":
                    b = mk(str(rng.choice(list("SEF"))), str(rng.choice(["undefined", "voltage", "field", "power"])))
                    keep.append(b)
                    if rng.random() < 0.5:
                        a, b = b, a
                same_grid = np.array_equal(a.times, b.times)
                U = Signal.Type.undefined
                compatible = a.value_type == U or b.value_type == U or a.value_type == b.value_type
                if not (same_grid and compatible):
                    refused = False
                    try:
                        a + b
                    except ValueError:
                        refused = True
                    v.check(refused, "addition refused for different grids or incompatible value types", same_grid=bool(same_grid), types=[str(a.value_type), str(b.value_type)], classes=[type(a).__name__, type(b).__name__])
                    continue
                res = a + b
                exp = np.array(a.values) + np.array(b.values)
                exp_type = b.value_type if a.value_type == U else a.value_type
                da, db = defn.get(id(a)), defn.get(id(b))
                if isinstance(a, FunctionSignal) and isinstance(b, FunctionSignal) and da is not None and db is not None:
                    defn[id(res)] = da + db
                elif isinstance(a, FunctionSignal) and isinstance(b, EmptySignal):
                    defn[id(res)] = da
                elif isinstance(b, FunctionSignal) and isinstance(a, EmptySignal):
                    defn[id(res)] = db
            elif op == "sum":
                U = Signal.Type.undefined
                grp = [o for o in pool if np.array_equal(o.times, a.times)]
                ts_ = {o.value_type for o in grp if o.value_type != U}
                if len(ts_) > 1:
                    continue
                total = sum(grp)
                exp = sum(np.array(o.values) for o in grp)
                if len(grp) == 1:
                    v.check(total is grp[0], "0 + s returns the signal itself")
                    continue
                res = total
                exp_type = next(iter(ts_)) if ts_ else U
            elif op in ("mul", "rmul", "div"):
                c = float(rng.normal()) if op != "div" else float(rng.uniform(0.5, 2) * rng.choice([-1, 1]))
                res = a * c if op == "mul" else (c * a if op == "rmul" else a / c)
                exp = np.array(a.values) * c if op != "div" else np.array(a.values) / c
                exp_type = a.value_type
                if defn.get(id(a)) is not None:
                    defn[id(res)] = [(n_, s_, f_ * c if op != "div" else f_ / c, d_) for n_, s_, f_, d_ in defn[id(a)]]
            elif op in ("imul", "idiv"):
                c = float(rng.normal()) if op == "imul" else float(rng.uniform(0.5, 2))
                exp = np.array(a.values) * c if op == "imul" else np.array(a.values) / c
                inplace = tuple(i for i, o in enumerate(pool) if o is a)
                if op == "imul":
                    a *= c
                else:
                    a /= c
                eq(a, exp, "in-place scaling multiplies every value", op)
                if defn.get(id(a)) is not None:
                    defn[id(a)] = [(n_, s_, f_ * c if op == "imul" else f_ / c, d_) for n_, s_, f_, d_ in defn[id(a)]]
            elif op == "shift":
                d = float(rng.uniform(-3, 3) * dt)
                et = np.asarray(a.times) + d
                ev = np.array(a.values) if not isinstance(a, FunctionSignal) else None
                inplace = tuple(i for i, o in enumerate(pool) if o is a)
                a.shift(d)
                v.check(np.array_equal(a.times, et), "shift moves the times")
                if ev is not None:
                    v.check(np.array_equal(a.values, ev), "shift keeps the values of a sampled signal")
                if defn.get(id(a)) is not None:
                    defn[id(a)] = [(n_, s_, f_, d_ + d) for n_, s_, f_, d_ in defn[id(a)]]
                    exp_ = sum(c_ * FUNCS[n_]((a.times - d_) * s_) for n_, s_, c_, d_ in defn[id(a)])
                    eq(a, exp_, "shifted function signal == its function on the shifted grid", op, scale=max(1.0, float(np.max(np.abs(exp_)))) * 1e3)
            elif op == "regridadd":
                # sum of function signals whose components carry *different* lead-in / lead-out buffers: a signal re-gridded onto a
                # part of its span keeps the cut-off stretches as buffers, a freshly built one has none (or its own)
                if not isinstance(a, FunctionSignal) or len(a.times) < 3:
                    continue
                i0 = int(rng.integers(0, len(a.times) - 2))
                nt = np.array(a.times[i0:i0 + int(rng.integers(2, len(a.times) - i0 + 1))], float)
                r_ = a.with_times(nt)
                name = list(FUNCS)[int(rng.integers(0, len(FUNCS)))]
                b2 = FunctionSignal(nt, _scaled(name, 1.0 / dt, scalar_only=bool(rng.random() < 0.3)), a.value_type)
                if rng.random() < 0.5:
                    b2.set_buffers(leading=float(rng.uniform(0, 5) * dt), trailing=float(rng.uniform(0, 5) * dt))
                keep.extend([r_, b2])
                first_is_regridded = bool(rng.random() < 0.5)
                hist[-1] += "[window %d+%d, buffers %s / %s, %s]" % (i0, len(nt), r_._buffers, b2._buffers, "r+b" if first_is_regridded else "b+r")
                res = (r_ + b2) if first_is_regridded else (b2 + r_)
                own = [(name, 1.0 / dt, 1.0, 0.0)]
                if defn.get(id(a)) is not None:
                    parts = defn[id(a)] + own if first_is_regridded else own + defn[id(a)]
                    exp = sum(c_ * FUNCS[n_]((nt - d_) * s_) for n_, s_, c_, d_ in parts)
                    defn[id(res)] = parts
                else:
                    exp = np.array(r_.values) + np.array(b2.values)
                exp_type = a.value_type
            elif op == "buffers":
                # growing the buffers of an unfiltered function signal changes nothing a caller can see
                if not isinstance(a, FunctionSignal):
                    continue
                ev = np.array(a.values)
                inplace = tuple(i for i, o in enumerate(pool) if o is a)
                lead_, trail_ = float(rng.uniform(0, 6) * dt), float(rng.uniform(0, 6) * dt)
                a.set_buffers(leading=lead_ if rng.random() < 0.7 else None, trailing=trail_ if rng.random() < 0.7 else None, force=bool(rng.random() < 0.3))
                if not any(len(g) for g in a._filters):
                    eq(a, ev, "buffers do not change the values of an unfiltered function signal", op)
                v.check(len(a.values) == len(a.times), "one value per time sample", op=op, nvalues=len(a.values), ntimes=len(a.times), history=hist[-4:])
            elif op == "construct":
                nv = int(rng.integers(0, 2 * N + 2))
                ints = bool(rng.random() < 0.2)
                vals = rng.integers(-5, 5, size=nv) if ints else rng.normal(size=nv)
                if rng.random() < 0.2:
                    vals = vals + 1j * rng.normal(size=nv)          # complex samples (a spectrum-like quantity kept in a Signal)
                    hist[-1] += "[complex]"
                tt = off + np.arange(N) * dt
                as_list = bool(rng.random() < 0.3)
                res = Signal(tt.tolist() if as_list else tt, vals.tolist() if as_list else vals, str(rng.choice(types)))
                exp = np.concatenate((vals, np.zeros(max(N - nv, 0))))[:N]
                exp_type = res.value_type
                hist[-1] += "[nvalues=%d,ntimes=%d]" % (nv, N)
                if not as_list:
                    args += [tt, vals]
                    argsnap += [tt.copy(), vals.copy()]
        except PostBroken as e:
            v.check(False, "one value per time sample", op=op, contract=str(e)[:200], history=hist[-4:])
            continue
        # operands unchanged (except the in-place target)
        for i, (o, s0) in enumerate(zip(pool, before)):
            if i in inplace:
                continue
            v.check(snapshot(o) == s0, "operation leaves its operands unchanged", op=op, operand=type(o).__name__, history=hist[-4:])
        for x, x0 in zip(args, argsnap):
            v.check(np.array_equal(np.array(x), x0), "operation leaves caller-owned arrays unchanged", op=op, history=hist[-4:])
        if res is None:
            continue
        keep.append(res)
        results += 1
        if isinstance(res, FunctionSignal) and (id(a) in filtered or id(b) in filtered or op == "sum"):
            filtered.add(id(res))
        v.check(len(res.values) == len(res.times), "one value per time sample", op=op, nvalues=len(res.values), ntimes=len(res.times), history=hist[-4:])
        if exp is not None:
            eq(res, exp, "result values == reference model", op)
        if exp_type is not None:
            v.check(res.value_type == exp_type, "result value type", op=op, got=str(res.value_type), expected=str(exp_type), history=hist[-4:])
        # ---- alias graph
        for o in pool:
            for x in arrays_of(res):
                for y in arrays_of(o):
                    v.check(not np.shares_memory(x, y), "result shares no array with an operand", op=op, operand=type(o).__name__, history=hist[-4:])
            for x in lists_of(res):
                for y in lists_of(o):
                    v.check(x is not y, "result shares no component list with an operand", op=op, history=hist[-4:])
        for x in arrays_of(res):
            for y in args:
                if isinstance(y, np.ndarray):
                    v.check(not np.shares_memory(x, y), "result shares no array with a caller-owned argument", op=op, operand=type(a).__name__, history=hist[-4:])
        # ---- mutate the result, nothing else may move
        snaps = [snapshot(o) for o in pool]
        asn = [np.array(x).copy() for x in args]
        probe = res.copy() if rng.random() < 0.15 else res   # sometimes keep the result pristine for later steps
        keep.append(probe)
        probe.shift(0.25 * dt)
        probe *= 1.5
        if not isinstance(probe, (FunctionSignal, EmptySignal)) and len(probe.values) and probe.values.dtype.kind == "f":
            probe.values[0] += 1
        if isinstance(probe, FunctionSignal) and len(probe.times) >= 2:
            probe.filter_frequencies(lambda fr: 0.5 + 0 * fr)
            filtered.add(id(probe))
        if probe is res and defn.get(id(res)) is not None:
            defn[id(res)] = None
        for o, s0 in zip(pool, snaps):
            v.check(snapshot(o) == s0, "mutating a result does not move any operand", op=op, operand=type(o).__name__, history=hist[-4:])
        for x, x0 in zip(args, asn):
            v.check(np.array_equal(np.array(x), x0), "mutating a result does not move a caller-owned array", op=op, operand=type(a).__name__, history=hist[-4:])
        pool[int(rng.integers(0, len(pool)))] = res
    sample = {"grid": {"N": N, "dt": dt, "offset": off}, "history": hist, "pool": [type(o).__name__ for o in pool]}
    r = v.result(decided=True, nontrivial=results > 0, sample=sample)
    r["events"] += 0
    return r


def _scaled(name, scale, scalar_only=False):
    f = FUNCS[name]
    if scalar_only:
        # a function written for one time at a time (float() of an array with several elements raises TypeError)
        return lambda ts: float(f(float(ts) * scale))
    return lambda ts: f(np.asarray(ts) * scale)


def extra_evidence(results):
    return {"contract": "icontract.ensure(len(values)==len(times)) on the real Signal.__init__ (raises PostBroken)"}


def fx_with_times_alias(case, viol):
    return viol["clause"] in ("result shares no array with a caller-owned argument", "re-gridded signal holds its times as an array",
                              "mutating a result does not move a caller-owned array") and viol["detail"].get("operand", "").startswith(("FunctionSignal", "F"))


def fx_single_sample(case, viol):
    return viol["clause"] == "unexpected exception from pyrex" and viol["detail"].get("raised_in", "").endswith(("_full_times", "_value_window"))
