"""C19 — detector composition visits every antenna once; triggers and clears as the union; keyword dispatch.

Monitor shape: histories of composition operations checked against a flat-list shadow model (antennas in
construction order), plus recorders on each sub-detector's build_antennas / triggered that show which keywords
arrived (compared with the keyword set its own signature accepts).
"""
import inspect
import numpy as np
from vt.util import V, case_rng, rng_for

PROPERTY = "C19"
TITLE = "Detector composition"
TECHNIQUE = ("runtime monitoring: composition histories on real detectors against a flat-list shadow model, keyword recorders on sub-detectors, and an icontract class invariant on Detector/CombinedDetector (also evaluated while the repository's own tests run)")
ANCHORS = ["pyrex.internal_functions:flatten", "pyrex.detector:Detector.__iter__", "pyrex.detector:Detector.__len__", "pyrex.detector:Detector.__getitem__",
           "pyrex.detector:CombinedDetector.__add__", "pyrex.detector:CombinedDetector.__radd__", "pyrex.detector:CombinedDetector.__iadd__",
           "pyrex.detector:Detector.triggered", "pyrex.detector:CombinedDetector.triggered", "pyrex.detector:Detector._test_positions",
           "pyrex.detector:Detector.build_antennas", "pyrex.detector:Detector.clear"]
RULE = ("one case = 'tree': 2-6 operands (Detector subclasses nested to depth <= 4, plain antennas, antenna lists, "
        "AntennaSystems) combined under random parenthesisations of +, by +=, by sum and by 0+, with random hit "
        "patterns, mc-truth triggers and clears; 'dispatch': sub-detectors whose build_antennas / triggered take "
        "explicit, **kwargs or no extra keywords, built and triggered through one combined detector with random keyword "
        "sets; 'above-ice': an antenna with z>0 placed at a random position in the tree; non-trivial = at least two "
        "operands of which one is a Detector and >= 3 antennas; distinct = hash of the case")
ASSUMPTIONS = ["a **kwargs build method that receives all keywords does not forward unknown ones to antenna constructors (recording stubs)"]
BUDGET = {"quick": 300, "thorough": 1800}
NEEDS_ICONTRACT = True
_STATE = {"inv_evals": 0, "inv_compared": 0}


class InvariantBroken(AssertionError):
    pass


def flat_consistent(self):
    """Class invariant on the real Detector / CombinedDetector: length, iteration and indexing describe the same flat content."""
    if _STATE.get("busy"):
        return True          # the invariant's own reads (and those of nested detectors) are not checked again
    _STATE["inv_evals"] += 1
    if _STATE["inv_evals"] % 8:
        return True          # evaluated at every 8th public call (a full flattening per call would dominate the run)
    _STATE["busy"] = True
    try:
        items = list(iter(self))
        n = len(self)
        ends = [self[i] for i in ((0, n - 1, -1) if n > 0 else ())]
    except Exception:       # noqa: BLE001 -- not observable in this state (half-built object): nothing to compare
        return True
    finally:
        _STATE["busy"] = False
    _STATE["inv_compared"] += 1
    if n != len(items) or len({id(x) for x in items}) != len(items):
        return False
    return n == 0 or (ends[0] is items[0] and ends[1] is items[-1] and ends[2] is items[-1])


def setup():
    import icontract
    import pyrex.detector as pd
    for cls in (pd.Detector, pd.CombinedDetector):
        if not cls.__dict__.get("_vt_inv", False):
            icontract.invariant(flat_consistent, error=InvariantBroken)(cls)
            cls._vt_inv = True


def gen_cases(tier, seed):
    rng = rng_for(PROPERTY, seed)
    n = 400 if tier == "quick" else 8000
    return [{"cls": ["tree", "tree", "dispatch", "above-ice"][i % 4], "n_operands": int(rng.integers(2, 7)), "salt": int(rng.integers(0, 2**31))} for i in range(n)] + [
        {"cls": "repo-suite", "files": ["tests/test_detector.py", "tests/test_kernel.py"]}]


def _run_case(case):
    import pyrex
    from pyrex.antenna import Antenna
    from pyrex.detector import Detector, CombinedDetector, AntennaSystem
    from pyrex.signals import Signal
    v = V()
    rng = case_rng(case, case.get("salt", 0))

    class Leaf(Detector):
        def set_positions(self, n, x0, z0=-10.0):
            for i in range(n):
                self.antenna_positions.append((x0, i, z0 - i))

    class Mid(Detector):
        def set_positions(self, shapes, x0, z0=-10.0):
            for j, sh in enumerate(shapes):
                self.subsets.append(Leaf(sh, x0 + j, z0) if isinstance(sh, int) else Mid(sh, x0 + 10 * j, z0))

    def rand_shape(depth):
        if depth == 0 or rng.random() < 0.4:
            return int(rng.integers(1, 4))
        return [rand_shape(depth - 1) for _ in range(int(rng.integers(1, 4)))]

    def build(shape, x0):
        d = Leaf(shape, x0) if isinstance(shape, int) else Mid(shape, x0)
        d.build_antennas(Antenna, noisy=False)
        return d

    def hit(a):
        a.receive(Signal(np.arange(5) * 1e-9, np.ones(5), "voltage"))

    if case["cls"] in ("tree",):
        dets = []
        for k in range(case["n_operands"]):
            r = rng.random()
            if r < 0.55:
                dets.append(build(rand_shape(3), 100 * k))
            elif r < 0.7:
                dets.append(Antenna((k, 0, -5), noisy=False))
            elif r < 0.8:
                sys_ = AntennaSystem(Antenna((k, 1, -7), noisy=False, freq_range=(1e8, 3e8), noise_rms=1.0))
                sys_.position = sys_.antenna.position      # as every shipped AntennaSystem subclass provides
                dets.append(sys_)
            else:
                dets.append([Antenna((k, j, -6), noisy=False) for j in range(int(rng.integers(1, 3)))])
        flat = []
        for dd in dets:
            if isinstance(dd, (Antenna, AntennaSystem)):
                flat.append(dd)
            else:
                flat.extend(list(dd))
        ndet = sum(isinstance(x, Detector) for x in dets)
        if ndet == 0:
            return v.result(decided=True, nontrivial=False, sample={"operands": [type(x).__name__ for x in dets]}, skip=None)
        for dd in dets:
            if isinstance(dd, Detector):
                own = list(dd)
                v.check(len(dd) == len(own) and all(dd[i] is own[i] for i in range(len(own))) and (not own or dd[-1] is own[-1]), "len / index / iteration of one detector agree")
                v.check(len(set(map(id, own))) == len(own), "iteration visits every antenna exactly once")

        def fold(lo, hi):
            if hi - lo == 1:
                return dets[lo]
            m = int(rng.integers(lo + 1, hi))
            return fold(lo, m) + fold(m, hi)
        combos = []
        for rep in range(3):
            try:
                combos.append(("parenthesisation", fold(0, len(dets))))
            except TypeError:
                continue            # list+list or antenna+antenna: no Detector on either side of that '+', nothing to claim
        if isinstance(dets[0], Detector):
            try:
                combos.append(("sum", sum(dets)))
                combos.append(("0+", 0 + dets[0]))
            except TypeError:
                pass
            c2 = CombinedDetector(dets[0])
            for dd in dets[1:]:
                c2 += dd
            combos.append(("+=", c2))
            # sum() over already combined detectors starts with 0 + (a combined detector): it is that detector's content, nothing more
            try:
                whole = fold(0, len(dets))
                combos.append(("0 + combined", 0 + whole))
                if len(dets) >= 3:
                    combos.append(("sum of combined parts", sum([dets[0] + dets[1], fold(2, len(dets))]) if len(dets) > 3 or isinstance(dets[2], Detector) else sum([dets[0] + dets[1]]) + dets[2]))
            except TypeError:
                pass
        own_before = [[id(a) for a in dd] if isinstance(dd, Detector) else None for dd in dets]
        for how, c in combos:
            want = flat if how != "0+" else list(dets[0])
            got = list(c)
            ok = v.check([id(a) for a in got] == [id(a) for a in want], "combination visits every built antenna exactly once in construction order", how=how,
                         got=len(got), expected=len(want), operands=[type(x).__name__ for x in dets])
            if not ok:
                continue
            v.check(len(c) == len(want), "len == number of antennas", how=how, got=len(c), expected=len(want))
            idx = int(rng.integers(0, len(want)))
            v.check(c[idx] is want[idx] and c[-1] is want[-1] and c[idx - len(want)] is want[idx], "indexing (also negative) returns the antenna at that position", how=how)
            if how == "0+":
                v.check(c is dets[0], "0 + detector is the detector itself")
                continue
            # trigger == any antenna hit, clear clears all
            for a in want:
                a.clear()
            hits = [a for a in want if rng.random() < 0.1]
            for a in hits:
                hit(a)
            v.check(bool(c.triggered()) == (len(hits) > 0), "default trigger <=> some antenna is hit", how=how, n_hit=len(hits))
            mc = any(bool(a.is_hit_mc_truth) for a in want)
            v.check(bool(c.triggered(require_mc_truth=True)) == mc, "default trigger by Monte-Carlo truth <=> some antenna is hit by Monte-Carlo truth", how=how, n_hit=len(hits), mc=mc)
            c.clear()
            v.check(not any(len(a.signals) for a in want) and not c.triggered(), "clear clears every antenna", how=how)
        for dd, ob in zip(dets, own_before):
            if ob is not None:
                v.check([id(a) for a in dd] == ob, "combining detectors leaves each operand's own content unchanged", before=len(ob), after=len(list(dd)), operand=type(dd).__name__)
        # ---- measured once, then rebuilt / extended underneath, then measured again: len / index / iteration stay in step
        for how, c in combos[:2]:
            if how == "0+":
                continue
            _ = len(c), (c[0] if len(c) else None)
            for dd in dets:
                if isinstance(dd, Detector):
                    dd.build_antennas(Antenna, noisy=False)            # rebuild: every antenna object is replaced
            live = list(c)
            v.check(len(c) == len(live) and all(c[i] is live[i] for i in range(len(live))) and (not live or c[-1] is live[-1]),
                    "after rebuilding sub-detectors len / index / iteration of the enclosing detector agree", how=how, len=len(c), iterated=len(live))
            want2 = []
            for dd in dets:
                if isinstance(dd, (Antenna, AntennaSystem)):
                    want2.append(dd)
                else:
                    want2.extend(list(dd))
            v.check([id(a) for a in live] == [id(a) for a in want2], "after rebuilding, the enclosing detector visits the newly built antennas", how=how)
            inner = next((dd for dd in c.subsets if isinstance(dd, CombinedDetector)), None) if hasattr(c, "subsets") else None
            if inner is not None:
                extra = Antenna((77, 0, -9), noisy=False)
                n_before = len(c)
                inner += extra
                v.check(len(c) == n_before + 1 and extra in list(c) and any(c[i] is extra for i in range(len(c))),
                        "extending a nested combined detector is seen by the enclosing detector's len / index / iteration", how=how, len=len(c), before=n_before)
        sample = {"operands": [type(x).__name__ if not isinstance(x, list) else "list[%d]" % len(x) for x in dets], "antennas": len(flat), "combinations": [h for h, _ in combos]}
        return v.result(decided=True, nontrivial=len(flat) >= 3 and len(combos) > 0, sample=sample)

    if case["cls"] == "above-ice":
        # any height above the surface counts: tens of metres down to sub-atomic heights and the smallest positive double
        z_bad = [float(10 ** rng.uniform(-6, 1.5)), float(10 ** rng.uniform(-15, -6)), float(10 ** rng.uniform(-300, -15)), 5e-324][int(rng.integers(0, 4))]
        where = str(rng.choice(["leaf", "nested", "combine-antenna", "combine-list", "iadd"]))
        raised = False
        try:
            if where == "leaf":
                Leaf(2, 0.0, z_bad)
            elif where == "nested":
                Mid([1, [2, 1]], 0.0, z_bad)
            elif where == "combine-antenna":
                build(2, 0) + Antenna((0, 0, z_bad), noisy=False)
            elif where == "combine-list":
                build(2, 0) + [Antenna((0, 0, -1), noisy=False), Antenna((0, 0, z_bad), noisy=False)]
            else:
                c = build(1, 0) + build(2, 50)
                c += Antenna((0, 0, z_bad), noisy=False)
        except ValueError:
            raised = True
        v.check(raised, "antennas above the ice surface are rejected", where=where, z=z_bad)
        ok = True
        try:
            (build(2, 0) + Antenna((0, 0, 0.0), noisy=False))
            Leaf(2, 0.0, 0.0)
        except ValueError:
            ok = False
        v.check(ok, "antennas exactly at the surface (z = 0) are accepted")
        return v.result(decided=True, nontrivial=True, sample={"where": where, "z": z_bad})

    # ---- dispatch
    rec = {}

    class A1(Detector):
        def set_positions(self, n=2, x0=0):
            for i in range(n):
                self.antenna_positions.append((x0, i, -10))

        def build_antennas(self, antenna_class, alpha=0, **kw):
            rec[("build", id(self))] = dict(alpha=alpha, **kw)
            super().build_antennas(antenna_class, noisy=False)

        def triggered(self, alpha=0, require_mc_truth=False):
            rec[("trig", id(self))] = dict(alpha=alpha, require_mc_truth=require_mc_truth)
            return super().triggered(require_mc_truth=require_mc_truth)

    class B1(Detector):
        def set_positions(self, n=1, x0=50):
            for i in range(n):
                self.antenna_positions.append((x0, i, -20))

        def build_antennas(self, antenna_class, beta=1):
            rec[("build", id(self))] = dict(beta=beta)
            super().build_antennas(antenna_class, noisy=False)

        def triggered(self, beta=1, require_mc_truth=False):
            rec[("trig", id(self))] = dict(beta=beta, require_mc_truth=require_mc_truth)
            return super().triggered(require_mc_truth=require_mc_truth)

    class K1(Detector):
        def set_positions(self, n=1, x0=90):
            for i in range(n):
                self.antenna_positions.append((x0, i, -30))

        def build_antennas(self, **kw):
            rec[("build", id(self))] = dict(kw)
            if "antenna_class" in kw:
                super().build_antennas(kw["antenna_class"], noisy=False)

    class D0(Detector):          # default build_antennas(*args, **kwargs) of the base class
        def set_positions(self, n=1, x0=130):
            for i in range(n):
                self.antenna_positions.append((x0, i, -40))

    classes = [A1, B1, K1, D0]
    pick = [classes[i] for i in rng.permutation(4)[:int(rng.integers(1, 5))]]
    subs = [cls() for cls in pick]
    if rng.random() < 0.25:
        # a combination that starts with two sub-detectors of one kind, grows by `+=` with one of another kind, and is then nested as
        # a single operand of a further sum: the grown combination must pass on the keywords of its late-comer as well
        first = [A1, B1][int(rng.integers(0, 2))]
        late = B1 if first is A1 else A1
        inner = [first(), first(), late()]
        grown = CombinedDetector(inner[0], inner[1])
        grown += inner[2]
        head = K1()
        subs = [head] + inner
        c = head + grown
    elif len(subs) == 1:
        # a combination of exactly one (still unbuilt) sub-detector, made directly or by adding to an empty combination
        c = CombinedDetector(subs[0]) if rng.random() < 0.5 else CombinedDetector() + subs[0]
    else:
        c = subs[0]
        for s_ in subs[1:]:
            c = c + s_
    kw = dict(antenna_class=Antenna)
    if rng.random() < 0.7:
        kw["alpha"] = int(rng.integers(1, 9))
    if rng.random() < 0.7:
        kw["beta"] = int(rng.integers(1, 9))
    has_default = any(isinstance(s_, D0) for s_ in subs)
    if has_default:
        kw.pop("alpha", None)
        kw.pop("beta", None)      # the default builder forwards every keyword to the antenna constructor: only give it what that accepts
        kw["noisy"] = False
    def accepted_by_sole(method, given):
        # with a single sub-detector (all signatures trivially identical) keywords are handed down as they are, and one that the
        # sub-detector does not accept is an error of the caller, as it would be on the sub-detector itself: do not pass such
        if len(subs) != 1:
            return given
        sig_ = inspect.signature(getattr(type(subs[0]), method))
        if any(p_.kind == p_.VAR_KEYWORD for p_ in sig_.parameters.values()):
            return given
        return {k_: v_ for k_, v_ in given.items() if k_ in sig_.parameters}
    kw = accepted_by_sole("build_antennas", kw)
    c.build_antennas(**kw)
    defaults = {"alpha": 0, "beta": 1}
    for sdet in subs:
        if isinstance(sdet, D0):
            v.check(len(list(sdet)) == 1 and all(isinstance(a, Antenna) for a in sdet), "sub-detector with the default (*args, **kwargs) build method is built", n=len(list(sdet)))
            continue
        sig = inspect.signature(type(sdet).build_antennas)
        names = [p for p in sig.parameters if p not in ("self", "antenna_class")]
        haskw = any(p.kind == p.VAR_KEYWORD for p in sig.parameters.values())
        expk = {k: val for k, val in kw.items() if k != "antenna_class" and (haskw or k in names)}
        got = rec.get(("build", id(sdet)))
        if not v.check(got is not None, "every sub-detector's build method is called", cls=type(sdet).__name__):
            continue
        got = {k: val for k, val in got.items() if k != "antenna_class" and not (k in defaults and val == defaults[k] and k not in kw)}
        v.check(got == expk, "build keywords reach exactly the sub-detectors that accept them", cls=type(sdet).__name__, got=got, expected=expk, given=sorted(kw))
    nant = sum(len(list(s_)) for s_ in subs)
    v.check(len(c) == nant and [id(a) for a in c] == [id(a) for s_ in subs for a in s_], "combined detector holds every built antenna once, in order", got=len(c), expected=nant)
    tk = {}
    if rng.random() < 0.7:
        tk["alpha"] = int(rng.integers(1, 9))
    if rng.random() < 0.7:
        tk["beta"] = int(rng.integers(1, 9))
    tk = accepted_by_sole("triggered", tk)
    hit_any = bool(rng.random() < 0.4)
    if hit_any:
        hit(list(c)[-1])
    r = c.triggered(**tk)
    v.check(bool(r) == hit_any, "combined trigger <=> some antenna is hit", got=bool(r), expected=hit_any)
    for sdet in subs:
        if isinstance(sdet, (K1, D0)):
            continue
        got = rec.get(("trig", id(sdet)))
        nm = "alpha" if isinstance(sdet, A1) else "beta"
        exp = {nm: tk.get(nm, defaults[nm]), "require_mc_truth": False}
        if got is None and hit_any:
            continue        # an earlier sub-detector already answered True: later ones need not be asked
        v.check(got == exp, "trigger keywords reach exactly the sub-detectors that accept them", cls=type(sdet).__name__, got=got, expected=exp, given=sorted(tk))
    sample = {"sub_detectors": [type(s_).__name__ for s_ in subs], "build_keywords": sorted(kw), "trigger_keywords": sorted(tk)}
    return v.result(decided=True, nontrivial=True, sample=sample)


def fx_kwargs_build_gets_nothing(case, viol):
    d = viol["detail"]
    return case["cls"] == "dispatch" and (viol["clause"] == "unexpected exception from pyrex" and "antenna_class" in d.get("message", "")
                                          or d.get("cls") in ("K1", "D0"))


def run_case(case):
    if case["cls"] == "repo-suite":
        from vt import suite
        v_ = V()
        rep = suite.run("c19", case["files"])
        evals = sum(sum(x for x in d.values() if isinstance(x, int)) for d in rep.get("contract_evaluations", {}).values())
        v_.events += evals
        for f_ in rep.get("contract_failures", []):
            v_.check(False, "contract holds while the repository's own tests run", test=f_["test"], message=f_["message"])
        sample_ = {"workload": "repository test files under the contract", "files": rep.get("files"), "tests_collected": rep.get("collected"), "contract_evaluations": evals, "pytest": rep.get("tail")}
        if rep.get("returncode") != 0 and not rep.get("contract_failures"):
            return v_.result(decided=False, nontrivial=False, sample=sample_, skip="repository tests did not pass under the plugin")
        return v_.result(decided=True, nontrivial=evals >= 50, sample=sample_)
    try:
        return _run_case(case)
    except InvariantBroken as e:
        v_ = V()
        v_.check(False, "class invariant: length, iteration and indexing of a detector describe the same flat content", contract=str(e)[:300], kind=case["cls"])
        return v_.result(decided=True, nontrivial=True, sample={"kind": case["cls"]})


def extra_evidence(results):
    return {"contract": "icontract.invariant(flat_consistent) on the real Detector and CombinedDetector, evaluated at every 8th public call (and while the repository's own detector tests run)"}
