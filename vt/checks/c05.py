"""C05 — frequency filtering is linear, real-preserving, passive and free of wrap-around.

Monitor: Signal.filter_frequencies(H, force_real) is run on generated signals; the response callable is wrapped so
the frequency arguments it is asked for are recorded (the scalar fall-back is *seen* being taken).  Oracle: an
independent zero-padded FFT reference evaluating the (Hermitian-symmetrised) response itself, plus algebraic
relations between executions.
"""
import numpy as np
import scipy.fft
from vt.util import V, EPS, case_rng, rng_for

PROPERTY = "C05"
TITLE = "Frequency filtering"
TECHNIQUE = ('runtime monitoring: filter_frequencies executions with recorded response calls decided by an independent zero-padded FFT reference and algebraic relations between executions (linearity, homogeneity, identity, translation, re-used response objects)')
ANCHORS = ["pyrex.signals:Signal.filter_frequencies", "pyrex.signals:Signal._get_filter_response"]
RULE = ("one case = (N from {2,3,4,5,8,17,64,255,1024,4095}, dt log-uniform 1e-10..1 s, grid offset 0/1/1e3/1e6 windows, "
        "values impulse/step/chirp/noise, response kind: complex low-pass, brick-wall band, pure delay of m samples "
        "(m in 0..N and N+1..2N), scalar-only callable, unit, gaussian, positive-frequency-only, scalar constant, smooth "
        "|H|<=1, non-Hermitian; force_real on/off); non-trivial = reference filter and all applicable relations were "
        "evaluated; distinct = hash of the case")
ASSUMPTIONS = ["scipy.fft is trusted", "the time step of a grid is its stored times[1]-times[0]",
               "translation tolerance = 1e-10 + 4 eps |offset|/dt * max|f dH/df| (conditioning of dt under the offset)"]
BUDGET = {"quick": 300, "thorough": 3600}
KINDS = ["lowpass", "brickwall", "delay", "scalar-only", "unit", "gaussian", "positive-only", "scalar-constant", "smooth", "non-hermitian", "scalar-only-mixed-type", "scalar-only-delay", "scalar-constant-complex", "stored-table"]


def gen_cases(tier, seed):
    rng = rng_for(PROPERTY, seed)
    n = 1500 if tier == "quick" else 40000
    Ns = [2, 3, 4, 5, 8, 17, 64, 255, 1024, 4095]
    out = []
    for i in range(n):
        kind = KINDS[i % len(KINDS)]
        N = int(Ns[int(rng.integers(0, len(Ns)))]) if rng.random() < 0.8 else int(rng.integers(2, 300))
        dt = float(10 ** rng.uniform(-10, 0))
        off = float(rng.choice([0, 1, 1e3, 1e6]) * rng.uniform(-1, 1) * N * dt)
        c = {"cls": kind, "N": N, "dt": dt, "offset": off, "values": str(rng.choice(["impulse", "step", "chirp", "noise"])),
             "fc_frac": float(rng.uniform(0.03, 0.45)), "force_real": bool(rng.integers(0, 2)),
             # sample magnitudes from 1e-13 to 1e6 (a third of the cases), and the documented default force_real=False relied upon
             "amplitude": float(10 ** rng.uniform(-13, 6)) if rng.random() < 0.34 else 1.0, "omit_force_real": bool(rng.integers(0, 2))}
        if kind == "delay":
            c["m"] = int(rng.integers(0, N + 1)) if rng.random() < 0.75 else int(rng.integers(N + 1, 2 * N + 1))
            c["cls"] = "delay<=N" if c["m"] <= N else "delay>N"
            c["force_real"] = True
        if kind == "positive-only":
            c["force_real"] = True
        if kind == "scalar-only-delay":
            c["m"] = int(rng.integers(0, N + 1))
            c["force_real"] = True
        out.append(c)
    return out


def make_values(kind, N, rng):
    if kind == "impulse":
        v = np.zeros(N)
        v[int(rng.integers(0, N))] = rng.normal() + 2
        return v
    if kind == "step":
        v = np.zeros(N)
        v[int(rng.integers(0, N)):] = 1.5
        return v
    if kind == "chirp":
        k = np.arange(N)
        return np.sin(0.02 * k * k / max(N, 1) * 50 + 0.3 * k)
    return rng.normal(size=N)


def responses(case, dts):
    """(presented callable, vectorised truth used by the oracle, |H|<=1 ?)"""
    N, fc = case["N"], case["fc_frac"] / dts
    kind = case["cls"] if not case["cls"].startswith("delay") else "delay"
    if kind == "lowpass":
        t = lambda f: 1 / (1 + 1j * np.asarray(f) / fc)
        return t, t, True
    if kind == "brickwall":
        j = max(1, int(case["fc_frac"] * 2 * N))
        fe = (j + 0.5) / (2 * N * dts)           # edge half-way between two bins of the padded grid
        t = lambda f: np.where(np.abs(f) < fe, 1.0, 0.0) + 0j
        return t, t, True
    if kind == "delay":
        m = case["m"]
        t = lambda f: np.exp(-2j * np.pi * np.asarray(f) * m * dts)
        return t, t, True
    if kind == "scalar-only":
        t = lambda f: 1 / (1 + (np.asarray(f) / fc) ** 2) + 0j

        def p(f):
            return complex(1 / (1 + (float(f) / fc) ** 2))      # float(array) raises TypeError for size > 1
        return p, t, True
    if kind == "scalar-only-mixed-type":
        # a high-pass written for one frequency at a time, returning the literal int 0 at DC, a float below fc and a complex above
        t = lambda f: np.where(np.asarray(f) == 0, 0.0, np.where(np.abs(f) < fc, 0.25, 1j * np.abs(np.asarray(f)) / (np.abs(np.asarray(f)) + fc))) + 0j

        def p(f):
            f = float(f)
            if f == 0:
                return 0
            if abs(f) < fc:
                return 0.25
            return 1j * abs(f) / (abs(f) + fc)
        return p, t, True
    if kind == "scalar-only-delay":
        m = case["m"]
        t = lambda f: np.exp(-2j * np.pi * np.asarray(f) * m * dts)

        def p(f):
            f = float(f)
            return 1 if f == 0 else complex(np.exp(-2j * np.pi * f * m * dts))
        return p, t, True
    if kind == "unit":
        t = lambda f: 1.0 + 0 * np.asarray(f)
        return t, t, True
    if kind == "gaussian":
        t = lambda f: 0.3 * np.exp(-(np.asarray(f) / fc) ** 2)
        return t, t, True
    if kind == "positive-only":
        t = lambda f: 1 / (1 + 1j * np.abs(f) / fc)
        p = lambda f: np.where(np.asarray(f) >= 0, 1 / (1 + 1j * np.asarray(f) / fc), 123.0)   # garbage at f < 0
        return p, t, True
    if kind == "scalar-constant":
        t = lambda f: 0.5 + 0 * np.asarray(f)
        return (lambda f: 0.5), t, True
    if kind == "scalar-constant-complex":
        # a frequency-independent complex gain returned as one number whatever the argument
        t = lambda f: (0.3 + 0.4j) + 0 * np.asarray(f)
        return (lambda f: 0.3 + 0.4j), t, True
    if kind == "stored-table":
        # a response that looks its gains up in a table it keeps: the very same complex array object is handed out at every call
        t = lambda f: 1 / (1 + 1j * np.asarray(f) / fc)
        store = {}

        def p(f):
            f = np.asarray(f, float)
            key = (f.shape, float(f.flat[1]) if f.size > 1 else 0.0, float(f.flat[-1]) if f.size else 0.0)
            if key not in store:
                store[key] = np.asarray(t(f), dtype=complex)
            return store[key]
        return p, t, True
    if kind == "smooth":
        t = lambda f: (0.5 + 0.5 * np.cos(np.asarray(f) / fc)) * np.exp(1j * np.asarray(f) / (3 * fc))
        return t, t, True
    if kind == "non-hermitian":
        t = lambda f: 1 / (1 + 1j * (np.asarray(f) - 0.5 * fc) / fc)
        return t, t, True
    raise ValueError(kind)


def ref_filter(vals, dts, truth, force_real):
    N = len(vals)
    fr = scipy.fft.fftfreq(2 * N, d=dts)
    if force_real:
        h = np.asarray(truth(np.abs(fr)), complex)
        h = np.where(fr < 0, np.conj(h), h)
    else:
        h = np.asarray(truth(fr), complex)
    return np.real(scipy.fft.ifft(h * scipy.fft.fft(np.concatenate((vals, np.zeros(N))))))[:N]


def run_case(case):
    from pyrex.signals import Signal
    v = V()
    rng = case_rng(case)
    N, dt, off = case["N"], case["dt"], case["offset"]
    t = off + np.arange(N) * dt
    dts = float(t[1] - t[0])
    amp = float(case.get("amplitude", 1.0))
    vals = make_values(case["values"], N, rng) * amp
    vals2 = rng.normal(size=N) * amp
    fr_ = case["force_real"]
    present, truth, passive = responses(case, dts)
    asked = {"array": 0, "scalar": 0}

    def recorded(f):
        asked["array" if np.ndim(f) else "scalar"] += 1
        return present(f)
    recorded.__name__ = "recorded_" + case["cls"]

    def run(values, times=t, H=recorded, fr=fr_):
        s = Signal(times, values)
        if fr is False and case.get("omit_force_real"):
            s.filter_frequencies(H)           # the documented default: the response is used as given
        else:
            s.filter_frequencies(H, force_real=fr)
        return np.array(s.values)

    sc = max(float(np.max(np.abs(vals))), 1e-300)
    tol = 1e-13 * (1 + np.log2(N))      # calibration: worst seen 2e-15 over 6e4 cases; FFT round-off grows as log N
    out = run(vals)
    v.check(out.shape == (N,) and out.dtype.kind == "f" and bool(np.all(np.isfinite(out))), "output is a real signal on the input grid", shape=list(out.shape), dtype=str(out.dtype))
    if case["cls"].startswith("scalar-only"):
        v.check(asked["scalar"] >= 1, "scalar-only response reached through the per-frequency fall-back", asked=dict(asked))
    ref = ref_filter(vals, dts, truth, fr_)
    kind = case["cls"]
    is_delay = kind.startswith("delay") or kind == "scalar-only-delay"
    if True:   # also inside the known-finding region m > N: there the output must still equal the 2N-periodic reference
        v.close("output == independent FFT reference with the (symmetrised) response", np.max(np.abs(out - ref)) / sc, tol, N=N, force_real=fr_)
    # (1) linearity and homogeneity
    a_, b_ = rng.normal(size=2)
    out2 = run(vals2)
    out3 = run(a_ * vals + b_ * vals2)
    v.close("linear in the signal", np.max(np.abs(out3 - (a_ * out + b_ * out2))) / (sc + np.max(np.abs(vals2))), tol * (abs(a_) + abs(b_) + 1))
    c_ = 2.5 - 1.5j if not fr_ and kind == "non-hermitian" else 2.5
    out4 = run(vals, H=lambda f: c_ * np.asarray(present(f)) if np.ndim(f) or not kind.startswith("scalar-only") else c_ * present(f))
    if np.iscomplexobj(c_):
        ref4 = ref_filter(vals, dts, lambda f: c_ * truth(f), fr_)
        v.close("homogeneous in the response", np.max(np.abs(out4 - ref4)) / sc, tol * 4)
    else:
        v.close("homogeneous in the response", np.max(np.abs(out4 - c_ * out)) / sc, tol * 4)
    # (2) identity
    out5 = run(vals, H=lambda f: 1.0 + 0 * np.asarray(f))
    v.close("unit response is the identity", np.max(np.abs(out5 - vals)) / sc, tol)
    # (3) independent of the absolute grid position
    fr_grid = scipy.fft.fftfreq(2 * N, d=dts)
    fpos = np.abs(fr_grid[fr_grid != 0])
    if len(fpos) and kind != "brickwall":
        d = 1e-6
        S = float(np.max(np.abs(np.asarray(truth(fpos * (1 + d)), complex) - np.asarray(truth(fpos), complex)) / d))
    else:
        S = 0.0
    out6 = run(vals, times=np.arange(N) * dt)
    if is_delay:
        pass    # the delay is defined through the stored step of *this* grid; covered by (6)
    else:
        v.close("independent of the absolute position of the time grid", np.max(np.abs(out6 - out)) / sc, tol + 8 * EPS * abs(off) / dt * (S + 1), offset_windows=off / (N * dt))
    # (3b) the same response *object* applied on another sampling step (same number of samples) answers for that step
    dt_b = dt * float([1.7, 0.31, 2.0, 10.0][int(rng.integers(0, 4))])
    t_b = np.arange(N) * dt_b
    out_b = run(vals, times=t_b)
    ref_b = ref_filter(vals, float(t_b[1] - t_b[0]), truth, fr_)
    v.close("the same response object re-used on a grid with another step is evaluated at that grid's frequencies", np.max(np.abs(out_b - ref_b)) / sc, tol, N=N, force_real=fr_, dt=dt, dt_second=dt_b)
    # (3c) a function-backed signal is filtered like the sampled signal with the same values, and scaling it afterwards scales the result
    if not kind.startswith("scalar-only") and kind != "stored-table" and N >= 2:
        from pyrex.signals import FunctionSignal
        tab = {float(x): float(y) for x, y in zip(t, vals)}
        fsig = FunctionSignal(t, lambda q: np.interp(q, t, vals, left=0, right=0))
        fsig.filter_frequencies(present, force_real=fr_)
        fv = np.array(fsig.values)
        v.close("a function-backed signal is filtered like the sampled signal with the same values", np.max(np.abs(fv - out)) / sc, tol * 4, N=N, force_real=fr_)
        fsig *= 2.5
        v.close("scaling a filtered function-backed signal scales the filtered values", np.max(np.abs(np.array(fsig.values) - 2.5 * fv)) / sc, tol * 4, N=N, force_real=fr_)
    # (5) passivity
    if passive:
        v.check(float(np.sum(out ** 2)) <= float(np.sum(vals ** 2)) * (1 + 1e-9) + 1e-300, "|H| <= 1 never increases the energy", ein=float(np.sum(vals ** 2)), eout=float(np.sum(out ** 2)))
    # (6) pure delay: shift and drop, never wrap
    if is_delay:
        m = case["m"]
        exp = np.concatenate((np.zeros(m), vals))[:N]
        v.close("pure delay shifts later and drops what leaves the window", np.max(np.abs(out - exp)) / sc, tol * (1 + m), m=m, N=N)
    sample = {"N": N, "dt": dt, "offset": off, "values": case["values"], "response": kind, "force_real": fr_, "response_calls": dict(asked),
              "max_abs_out": float(np.max(np.abs(out)))}
    return v.result(decided=True, nontrivial=True, sample=sample)


def kf_delay_longer_than_window(case, viol):
    """The filter pads with exactly one extra window: a delay of more than N samples re-enters at the start."""
    return case["cls"] == "delay>N" and case.get("m", 0) > case["N"] and viol["clause"] in (
        "pure delay shifts later and drops what leaves the window",)


def fx_scalar_response_force_real(case, viol):
    return case["cls"] == "scalar-constant" and viol["clause"] == "unexpected exception from pyrex"
