"""C20 — the package uses only library interfaces that exist in its declared dependency range.

Runtime monitoring can observe exactly one configuration: the installed numpy / scipy / h5py / Python, which lies
inside the declared range.  Within it three monitors run, each in a *fresh interpreter* on a scratch copy of the
current working tree of the package (plus synthetic data files for pyrex.custom.ara / arianna, whose real data files
are absent here):

 import   every module of the package is imported with builtins.__import__ wrapped, so each import statement is
          attributed to its requesting module; any exception is a violation, and so is an import of a distribution that
          is neither standard library nor numpy/scipy/h5py by a module that is not documented as needing it.
 walk     after importing everything, the bytecode of every *function* body (code not executed by the import itself)
          is scanned for global-rooted attribute chains whose root is bound, in that function's real globals, to a
          third-party or stdlib module; each chain is resolved against the live library.  This is resolution of the
          loaded code against the live objects, not an observed execution of the line (said plainly in the evidence).
 exec     a mixed workload (kernel events with every tracer and signal model, HDF5 write/read, noise, generators,
          custom antennas on the fixtures) runs with recording proxies over the library modules in every pyrex module's
          globals: every attribute chain actually resolved is logged, and a failing resolution is a violation.
"""
import json
import os
import shutil
import subprocess
import sys
import tempfile
from vt.util import V

PROPERTY = "C20"
TITLE = "Only library interfaces present in the declared range"
NO_PYREX_IMPORT = True          # this check must be able to *report* a tree that does not import
TECHNIQUE = ('runtime monitoring in fresh interpreters: import of every module with import attribution, resolution of every library attribute chain and function-level import of the loaded code against the live libraries (try-guarded references told apart by the exception table, names in except headers included; method names that numpy.ndarray lost since the declared lower bound), and an instrumented workload under attribute-recording proxies')
ANCHORS = []
RULE = ("one 'import' case per module file of the package (fresh interpreter each); one 'walk' case over all function "
        "bodies of all loaded modules; one 'exec' case running the mixed workload under attribute-recording proxies; "
        "non-trivial = the module executed its body / at least 200 chains were resolved / at least 60 distinct chains "
        "were observed at run time; distinct = module name or monitor name")
ASSUMPTIONS = ["only the installed configuration (python 3.12, numpy 2.x, scipy 1.x, h5py 3.x) is observable; older versions inside the declared range are out of reach",
               "pyrex.custom.ara / arianna run on synthetic, format-valid data files written into the scratch copy",
               "PySpice is optional: only pyrex.custom.pyspice and the irex front ends may import it"]
BUDGET = {"quick": 900, "thorough": 1800}
CASE_TIMEOUT = {"quick": 600, "thorough": 900}
MIN_NONTRIVIAL = 10
DECLARED = {"numpy", "scipy", "h5py"}
OPTIONAL = {"PySpice": ("pyrex.custom.pyspice", "pyrex.custom.irex.frontends")}
REPO = os.environ.get("VERIF_REPO", "/repo")
HERE = os.path.dirname(os.path.dirname(os.path.dirname(os.path.abspath(__file__))))


def modules_of(root):
    mods = []
    for dirpath, dirs, files in os.walk(os.path.join(root, "pyrex")):
        dirs[:] = [d for d in dirs if d != "__pycache__"]
        for f in files:
            if f.endswith(".py"):
                rel = os.path.relpath(os.path.join(dirpath, f), root)[:-3].replace(os.sep, ".")
                if rel.endswith(".__init__"):
                    rel = rel[:-9]
                mods.append(rel)
    return sorted(set(mods))


def gen_cases(tier, seed):
    cases = [{"cls": "import", "module": m} for m in modules_of(REPO)]
    cases.append({"cls": "walk"})
    cases.append({"cls": "exec", "events": 6 if tier == "quick" else 30, "seed": seed})
    return cases


def scratch_copy():
    from vt.fixtures import aradata
    d = tempfile.mkdtemp(prefix="vt_c20_")
    shutil.copytree(os.path.join(REPO, "pyrex"), os.path.join(d, "pyrex"), ignore=shutil.ignore_patterns("__pycache__", "*.pkl"))
    aradata.write_fixtures(os.path.join(d, "pyrex"))
    return d


def run_child(script, args, root, timeout):
    env = dict(os.environ, PYTHONPATH=root + os.pathsep + HERE, PYTHONDONTWRITEBYTECODE="1")
    r = subprocess.run([sys.executable, "-c", script] + list(args), capture_output=True, text=True, env=env, cwd=root, timeout=timeout)
    for line in reversed(r.stdout.strip().splitlines()):
        if line.startswith("{"):
            try:
                return json.loads(line)
            except Exception:
                continue
    return {"ok": False, "error": "child produced no result: " + (r.stderr or r.stdout)[-600:]}


CHILD_IMPORT = r'''
import sys, json, importlib, warnings, builtins, logging
logging.disable(logging.CRITICAL)
imports = []
_orig = builtins.__import__
def _imp(name, globals=None, locals=None, fromlist=(), level=0):
    who = (globals or {}).get('__name__', '')
    if who.startswith('pyrex') and level == 0:
        imports.append((who, name.split('.')[0]))
    return _orig(name, globals, locals, fromlist, level)
builtins.__import__ = _imp
res = {'module': sys.argv[1]}
with warnings.catch_warnings(record=True) as w:
    warnings.simplefilter('always')
    try:
        m = importlib.import_module(sys.argv[1]); res['ok'] = True
        res['names'] = len([k for k in vars(m) if not k.startswith('__')])
    except BaseException as e:
        import traceback
        tb = traceback.extract_tb(e.__traceback__)
        where = [f for f in tb if '/pyrex/' in f.filename]
        res['ok'] = False; res['error'] = type(e).__name__ + ': ' + str(e)[:300]
        res['where'] = ('%s:%d' % (where[-1].filename.split('/pyrex/')[-1], where[-1].lineno)) if where else ''
    res['warnings'] = sorted(set('%s: %s (%s)' % (x.category.__name__, str(x.message)[:90], (x.filename or '').split('/pyrex/')[-1]) for x in w if '/pyrex/' in (x.filename or '')))
std = set(sys.stdlib_module_names)
res['imports'] = sorted(set((a, b) for a, b in imports if b not in std and b != 'pyrex' and not b.startswith('_')))
print(json.dumps(res))
'''

CHILD_WALK = r'''
import sys, json, dis, types, importlib, warnings, logging, os
logging.disable(logging.CRITICAL)
warnings.simplefilter('ignore')
mods = json.loads(sys.argv[1])
failed = {}
for m in mods:
    try:
        importlib.import_module(m)
    except BaseException as e:
        failed[m] = type(e).__name__ + ': ' + str(e)[:200]
std = set(sys.stdlib_module_names)
def code_objects(co, depth=0):
    yield co, depth
    for c in co.co_consts:
        if isinstance(c, types.CodeType):
            yield from code_objects(c, depth + 1)
def guarded_ranges(co):
    try:
        # only the bodies of try statements: the table also lists the handlers themselves (entries with lasti set, whose target merely
        # restores the exception state and re-raises), and a name evaluated in an `except (A, B, np.C):` header is not protected by them
        return [(e.start, e.end) for e in dis.Bytecode(co).exception_entries if not e.lasti]
    except Exception:
        return []
def chains(co):
    ins = list(dis.get_instructions(co)); i = 0
    while i < len(ins):
        op = ins[i]
        if op.opname in ('LOAD_GLOBAL', 'LOAD_NAME'):
            chain = [op.argval]; j = i + 1
            while j < len(ins) and ins[j].opname in ('LOAD_ATTR', 'LOAD_METHOD'):
                chain.append(ins[j].argval); j += 1
            yield chain, (op.positions.lineno if op.positions else None), op.offset
            i = j
        else:
            i += 1
import builtins
import numpy as np
bad, deprecated, undefined, total, seen, permod = [], [], [], 0, set(), {}
REMOVED_NDARRAY_METHODS = set(n_ for n_ in ('ptp', 'newbyteorder', 'itemset', 'tostring') if not hasattr(np.ndarray, n_))
OWN_ATTRS = set()
for _n, _m in list(sys.modules.items()):
    if _n.startswith('pyrex') and _m is not None:
        for _o in list(vars(_m).values()):
            if isinstance(_o, type) and getattr(_o, '__module__', '').startswith('pyrex'):
                OWN_ATTRS.update(dir(_o))
for name, mod in sorted(sys.modules.items()):
    if not name.startswith('pyrex') or mod is None:
        continue
    src = getattr(mod, '__file__', None)
    if not src or not src.endswith('.py'):
        continue
    co = compile(open(src).read(), src, 'exec'); g = mod.__dict__
    for c, depth in code_objects(co):
        is_function_body = c.co_flags & 0x2 and c.co_name != '<module>'      # CO_NEWLOCALS: functions, lambdas, comprehensions
        if not is_function_body:
            continue          # module and class bodies were executed by the import itself
        guards = guarded_ranges(c)
        # import statements inside function bodies (not executed by the import of the module)
        _ins = list(dis.get_instructions(c))
        for _k, _op in enumerate(_ins):
            if _op.opname == 'IMPORT_NAME' and _op.argval and _op.argval.split('.')[0] != 'pyrex':
                _line = _op.positions.lineno if _op.positions else None
                _in_guard = any(s_ <= _op.offset < e_ for s_, e_ in guards)
                try:
                    _m = importlib.import_module(_op.argval)
                except Exception as e:
                    (deprecated if _in_guard else bad).append([name, _line, 'import ' + _op.argval, type(e).__name__ + ': ' + str(e)[:120], 'guarded by try' if _in_guard else ''])
                    continue
                _j = _k + 1
                while _j < len(_ins) and _ins[_j].opname in ('IMPORT_FROM', 'STORE_FAST', 'STORE_NAME', 'STORE_GLOBAL', 'STORE_DEREF', 'POP_TOP'):
                    if _ins[_j].opname == 'IMPORT_FROM':
                        total += 1; seen.add((name, _op.argval + '.' + _ins[_j].argval))
                        if not hasattr(_m, _ins[_j].argval):
                            try:
                                importlib.import_module(_op.argval + '.' + _ins[_j].argval)
                            except Exception as e:
                                (deprecated if _in_guard else bad).append([name, _line, 'from %s import %s' % (_op.argval, _ins[_j].argval), type(e).__name__ + ': ' + str(e)[:120], 'guarded by try' if _in_guard else ''])
                    _j += 1
        # methods that numpy.ndarray / numpy.generic offered at the declared lower bound (numpy 1.17) and that the installed numpy no
        # longer has: a call `<expression>.ptp()` cannot be resolved statically, so the *name* is looked up on the installed ndarray
        # (and on every class the package defines itself, which would make the name legitimate)
        for _op in _ins:
            if _op.opname in ('LOAD_ATTR', 'LOAD_METHOD') and _op.argval in REMOVED_NDARRAY_METHODS and _op.argval not in OWN_ATTRS:
                _line = _op.positions.lineno if _op.positions else None
                _in_guard = any(s_ <= _op.offset < e_ for s_, e_ in guards)
                total += 1; seen.add((name, '<array>.' + _op.argval))
                (deprecated if _in_guard else bad).append([name, _line, '<array expression>.' + _op.argval, "AttributeError: 'numpy.ndarray' object has no attribute '%s' (numpy %s; present in numpy 1.17)" % (_op.argval, np.__version__), 'guarded by try' if _in_guard else ''])
        for chain, line, off in chains(c):
            root = chain[0]
            if root not in g and not hasattr(builtins, root) and root not in c.co_varnames and root not in c.co_freevars and root not in c.co_cellvars:
                if len(chain) >= 1 and root not in ('__class__',):
                    undefined.append([name, line, root])
                continue
            rootobj = g.get(root)
            if len(chain) < 2 or not isinstance(rootobj, types.ModuleType) or rootobj.__name__.split('.')[0] == 'pyrex':
                continue
            obj = rootobj; ok = True
            for a in chain[1:]:
                with warnings.catch_warnings(record=True) as w:
                    warnings.simplefilter('always')
                    try:
                        obj = getattr(obj, a)
                    except Exception as e:
                        in_guard = any(s <= off < e_ for s, e_ in guards)
                        (deprecated if in_guard else bad).append([name, line, '.'.join(chain), type(e).__name__ + ': ' + str(e)[:120], 'guarded by try' if in_guard else ''])
                        ok = False
                        break
                    if w:
                        deprecated.append([name, line, '.'.join(chain), str(w[0].category.__name__) + ': ' + str(w[0].message)[:120], 'warning'])
                if not isinstance(obj, types.ModuleType):
                    break
            total += 1; seen.add((name, '.'.join(chain))); permod[name] = permod.get(name, 0) + 1
print(json.dumps({'ok': True, 'failed_imports': failed, 'chains': total, 'distinct': len(seen), 'bad': bad, 'deprecated': deprecated[:40],
                  'undefined_globals': undefined[:40], 'per_module': permod, 'sample_chains': sorted(set(c for _, c in seen))[:25]}))
'''

CHILD_EXEC = r'''
import sys, json, types, warnings, logging, os, tempfile, traceback
logging.disable(logging.CRITICAL)
warnings.simplefilter('ignore')
import numpy as np
nev = int(sys.argv[1]); np.random.seed(int(sys.argv[2]) + 11)
import pyrex, pyrex.custom.layered_ice as li
import pyrex.custom.ara as ara, pyrex.custom.arianna as arianna, pyrex.custom.irex as irex
observed, failures = set(), []
class Proxy(types.ModuleType):
    def __init__(self, target, path, owner):
        super().__init__(target.__name__)
        object.__setattr__(self, '_t', target); object.__setattr__(self, '_p', path); object.__setattr__(self, '_o', owner)
    def __getattr__(self, name):
        t = object.__getattribute__(self, '_t'); p = object.__getattribute__(self, '_p'); o = object.__getattribute__(self, '_o')
        chain = p + '.' + name
        try:
            val = getattr(t, name)
        except Exception as e:
            failures.append([o, chain, type(e).__name__ + ': ' + str(e)[:160]])
            raise
        observed.add((o, chain))
        if isinstance(val, types.ModuleType) and val.__name__.split('.')[0] == t.__name__.split('.')[0]:
            return Proxy(val, chain, o)
        return val
wrapped = 0
for name, mod in list(sys.modules.items()):
    if not name.startswith('pyrex') or mod is None or not getattr(mod, '__file__', ''):
        continue
    for k, val in list(vars(mod).items()):
        if isinstance(val, types.ModuleType) and not isinstance(val, Proxy) and val.__name__.split('.')[0] in ('numpy', 'scipy', 'h5py'):
            setattr(mod, k, Proxy(val, k, name)); wrapped += 1
errors = []
def attempt(label, fn):
    try:
        fn()
    except Exception as e:
        tb = traceback.extract_tb(e.__traceback__)
        where = [f for f in tb if '/pyrex/' in f.filename]
        errors.append([label, type(e).__name__ + ': ' + str(e)[:200], ('%s:%d' % (where[-1].filename.split('/pyrex/')[-1], where[-1].lineno)) if where else ''])
from pyrex.ray_tracing import SpecializedRayTracer, BasicRayTracer, UniformRayTracer
from pyrex.ice_model import AntarcticIce, UniformIce, ArasimIce, GreenlandIce
from pyrex.askaryan import ARZAskaryanSignal, AVZAskaryanSignal, ZHSAskaryanSignal
tmp = tempfile.mkdtemp(prefix='vt_c20x_')
def touch(label, obj):
    """Read every public property of the object (lazily evaluated quantities live there)."""
    for nm in dir(type(obj)):
        if nm.startswith('_'):
            continue
        desc = getattr(type(obj), nm, None)
        if isinstance(desc, property) or type(desc).__name__ in ('lazy_property', 'cached_property'):
            attempt('%s.%s' % (label, nm), lambda nm=nm: getattr(obj, nm))
def tracers_and_paths():
    li_ice = li.LayeredIce([UniformIce(1.4, valid_range=(-100, 0), index_above=None, index_below=None), AntarcticIce(valid_range=(-2850, -100), index_above=None, index_below=None)])
    for rt, ice in ((SpecializedRayTracer, AntarcticIce()), (BasicRayTracer, ArasimIce()), (SpecializedRayTracer, GreenlandIce()), (UniformRayTracer, UniformIce(1.6)), (li.LayeredRayTracer, li_ice)):
        for a, b in (((0., 0., -300.), (150., 20., -80.)), ((10., 0., -150.), (400., 0., -160.)), ((0, 0, -900), (30, 40, -200))):
            def go(rt=rt, ice=ice, a=a, b=b):
                tr = rt(a, b, ice)
                touch(rt.__name__, tr)
                for p in tr.solutions:
                    touch(type(p).__name__, p)
                    p.attenuation(np.array([1e8, 5e8])); p.propagate(pyrex.Signal(np.arange(64) * 1e-9, np.ones(64), 'field'), polarization=(0., 1., 0.))
                    for _pol in (None, (0., 1., 0.)):
                        for _ai in (None, 0.1, 0.25):
                            p.propagate(pyrex.Signal(np.arange(64) * 1e-9, np.ones(64), 'field'), polarization=_pol, attenuation_interpolation=_ai)
            attempt('tracer:%s' % rt.__name__, go)
def antenna_histories():
    t = np.arange(200) * 1e-9
    for make in (lambda: pyrex.Antenna((0, 0, -100), freq_range=(1e8, 4e8), noise_rms=1e-5, noisy=True, unique_noise_waveforms=2),
                 lambda: pyrex.DipoleAntenna('d', (0, 0, -100), 250e6, 300e6, 300, 50, noisy=True, unique_noise_waveforms=1)):
        def go(make=make):
            ant = make()
            ant.make_noise(t[:20]); ant.make_noise(t); ant.make_noise(np.arange(5000) * 1e-9); ant.make_noise(t[:20] - 1e-5)     # short, longer, much longer, elsewhere
            ant.receive(pyrex.Signal(t[:50], np.ones(50), 'voltage')); ant.waveforms; ant.is_hit
            ant.receive(pyrex.Signal(np.arange(3000) * 1e-9, np.ones(3000), 'voltage')); ant.all_waveforms; ant.is_hit_during(np.arange(6000) * 1e-9); ant.full_waveform(np.arange(9000) * 0.5e-9)
            ant.clear(reset_noise=True); ant.make_noise(t); touch(type(ant).__name__, ant)
        attempt('antenna-history', go)
def physics_objects():
    from pyrex.particle import Particle
    for model in (pyrex.particle.CTWInteraction, pyrex.particle.GQRSInteraction):
        for pid in ('nu_e', 'nu_mu_bar', 'nu_tau'):
            def go(model=model, pid=pid):
                p = Particle(pid, (0, 0, -500), (0.1, 0.2, -0.9), 1e9, interaction_model=model)
                touch('Particle', p); touch(model.__name__, p.interaction)
                for sm in (ARZAskaryanSignal, AVZAskaryanSignal, ZHSAskaryanSignal):
                    s = sm(np.arange(256) * 2e-10, p, 0.98, 100.0, t0=2e-8); s.values; touch(sm.__name__, s)
                ARZAskaryanSignal.em_shower_profile(np.arange(0, 20), 1e9) if hasattr(ARZAskaryanSignal, 'em_shower_profile') else None
                ARZAskaryanSignal.had_shower_profile(np.arange(0, 20), 1e9) if hasattr(ARZAskaryanSignal, 'had_shower_profile') else None
                ARZAskaryanSignal.em_shower_profile(np.linspace(0, 20, 7), 1e9) if hasattr(ARZAskaryanSignal, 'em_shower_profile') else None
            attempt('particle:%s:%s' % (model.__name__, pid), go)
    def gens():
        for g in (pyrex.CylindricalGenerator(500, 500, 1e9), pyrex.RectangularGenerator(500, 400, 300, lambda: 1e8, shadow=True), ):
            ev = g.create_event(); touch(type(g).__name__, g); touch('Event', ev)
            for p in ev:
                g.get_exit_points(p); g.get_weights(p)
    attempt('generators', gens)
    def sigs():
        t = np.arange(300) * 1e-9
        f = pyrex.signals.FunctionSignal(t, lambda x: np.sin(2e8 * x), 'voltage'); f.set_buffers(leading=2e-8, trailing=1e-8); f.filter_frequencies(lambda q: 1 / (1 + 1j * q / 1e8)); f.values
        touch('FunctionSignal', f); (f + f).values; (f * 2).values; f.with_times(t[5:90]).values; f.shift(1e-9); f.values
        s = pyrex.Signal(t, np.random.normal(size=300), 'field'); touch('Signal', s); s.with_times(np.linspace(-1e-8, 4e-7, 77)); (s + s * 0.5); sum([s, s]); s.copy(); s.resample(100)
        touch('EmptySignal', pyrex.signals.EmptySignal(t)); touch('GaussianNoise', pyrex.signals.GaussianNoise(t, 1.0))
    attempt('signal-api', sigs)
attempt('tracers', tracers_and_paths); attempt('antennas', antenna_histories); attempt('physics', physics_objects)
def kernel_events():
    combos = [(SpecializedRayTracer, AntarcticIce()), (BasicRayTracer, ArasimIce()), (SpecializedRayTracer, GreenlandIce()),
              (UniformRayTracer, UniformIce(1.6)), (li.LayeredRayTracer, li.LayeredIce([UniformIce(1.4, valid_range=(-100, 0), index_above=None, index_below=None), AntarcticIce(valid_range=(-2850, -100), index_above=None, index_below=None)]))]
    for i in range(nev):
        attempt('kernel+hdf5[%d]' % i, lambda i=i: one_event(i, combos))
def one_event(i, combos):
    if True:
        rt, ice = combos[i % len(combos)]
        model = [ARZAskaryanSignal, AVZAskaryanSignal, ZHSAskaryanSignal][i % 3]
        gen = pyrex.CylindricalGenerator(dr=500, dz=500, energy=1e9, shadow=bool(i % 2)) if i % 2 else pyrex.RectangularGenerator(600, 600, 500, energy=1e8)
        det = [pyrex.DipoleAntenna('a%d' % j, (50.0 * j, 0, -100.0 - 20 * j), 250e6, 300e6, 300, 50, noisy=True) for j in range(3)]
        fname = os.path.join(tmp, 'f%d.h5' % i)
        with pyrex.File(fname, 'w', write_noise=True, write_waveforms=True, write_antenna_triggers=True, require_trigger=False) as wr:
            wr.set_detector(det)
            k = pyrex.EventKernel(generator=gen, antennas=det, ice_model=ice, ray_tracer=rt, signal_model=model, event_writer=wr,
                                  signal_times=np.linspace(-50e-9, 50e-9, 501), offcone_max=None if i % 4 else 40,
                                  triggers=lambda detector: True)
            for _ in range(2):
                k.event()
        with pyrex.File(fname, 'r') as rd:
            for ev in rd:
                ev.get_particle_info(); ev.get_rays_info(); ev.get_waveforms(); ev.triggered; ev.noise_bases
            list(rd[0:2]); rd[-1]
attempt('kernel+hdf5', kernel_events)
def signals_and_noise():
    t = np.arange(256) * 1e-9
    s = pyrex.Signal(t, np.sin(2e8 * t), 'voltage'); s.filter_frequencies(lambda f: 1 / (1 + 1j * f / 2e8), force_real=True); s.resample(128); s.envelope; s.spectrum; s.frequencies
    for cls in (pyrex.signals.FFTThermalNoise, pyrex.signals.FullThermalNoise):
        n = cls(t, (1e8, 3e8), temperature=300, resistance=50); n.values; n.with_times(t[10:60]).values
    pyrex.signals.GaussianNoise(t, 1.0)
    e = pyrex.earth; e.slant_depth((0, 0, -100), (0.1, 0, -1)); e.density([1e6, 6e6])
    for ice in (AntarcticIce(), ArasimIce(), GreenlandIce()):
        ice.attenuation_length(np.array([-100., -500.]), np.array([1e8, 2e9])); ice.depth_with_index(np.array([1.5, 1.7])); ice.gradient(-50.)
attempt('signals', signals_and_noise)
def custom_antennas():
    t = np.arange(512) * 0.5e-9
    sig = pyrex.Signal(t, np.sin(2e9 * t) * np.exp(-((t - 1e-7) / 2e-8) ** 2), 'field')
    def use(make):
        def go():
            ant = make()
            ant.receive(sig, direction=(0, 0.6, 0.8), polarization=(0, 0.8, -0.6)); ant.all_waveforms; ant.is_hit
        return go
    attempt('custom:ara.VpolAntenna', use(lambda: ara.VpolAntenna('v', (0, 0, -100), power_threshold=1)))
    attempt('custom:ara.HpolAntenna', use(lambda: ara.HpolAntenna('h', (0, 0, -100), power_threshold=1)))
    attempt('custom:arianna.LPDA', use(lambda: arianna.LPDA('l', (0, 0, -1), threshold=1)))
    attempt('custom:irex.EnvelopeVpol', use(lambda: irex.EnvelopeVpol('e', (0, 0, -100), trigger_threshold=1e-3)))
    attempt('custom:irex.EnvelopeHpol', use(lambda: irex.EnvelopeHpol('e', (0, 0, -100), trigger_threshold=1e-3)))
    def station():
        d = ara.RegularStation(0, 0); d.build_antennas(power_threshold=1); len(d)
    attempt('custom:ara.RegularStation', station)
    attempt('custom:ara.ARA02', lambda: ara.ARA02())
    attempt('custom:irex.StationGrid', lambda: irex.StationGrid(stations=2, station_type=irex.RegularStation))
custom_antennas()
import shutil; shutil.rmtree(tmp, ignore_errors=True)
print(json.dumps({'ok': True, 'wrapped_globals': wrapped, 'observed': len(observed), 'failures': failures, 'workload_errors': errors,
                  'per_module': {m: len([1 for o, c in observed if o == m]) for m in sorted(set(o for o, c in observed))},
                  'sample_chains': sorted(set(c for o, c in observed))[:40]}))
'''


def run_case(case):
    v = V()
    root = scratch_copy()
    try:
        if case["cls"] == "import":
            m = case["module"]
            res = run_child(CHILD_IMPORT, [m], root, 300)
            v.check(bool(res.get("ok")), "importing the module succeeds", module=m, error=res.get("error"), where=res.get("where"))
            for who, dist in res.get("imports", []):
                if dist in DECLARED:
                    continue
                allowed = OPTIONAL.get(dist, ())
                v.check(who in allowed, "only declared dependencies are imported (optional ones only by the features documented as needing them)",
                        importer=who, imported=dist, module=m)
            sample = {"module": m, "ok": res.get("ok"), "third_party_imports": res.get("imports"), "warnings_from_pyrex_files": res.get("warnings"), "names_defined": res.get("names")}
            return v.result(decided=True, nontrivial=bool(res.get("ok")), sample=sample)
        if case["cls"] == "walk":
            res = run_child(CHILD_WALK, [json.dumps(modules_of(REPO))], root, 600)
            if not v.check(bool(res.get("ok")), "bytecode walk ran", error=res.get("error")):
                return v.result(decided=False, nontrivial=False, skip="walk child failed")
            for b in res["bad"]:
                v.check(False, "referenced library attribute exists in the installed library", module=b[0], line=b[1], chain=b[2], error=b[3])
            v.events += res["chains"]
            sample = {"monitor": "walk (resolution of loaded function bodies against the live libraries; NOT an observed execution)",
                      "chains_resolved_by_walk": res["chains"], "distinct": res["distinct"], "per_module": res["per_module"], "failed_imports": res["failed_imports"],
                      "deprecated_or_guarded": res["deprecated"], "undefined_non_library_globals (informational, outside this property)": res["undefined_globals"],
                      "sample_chains": res["sample_chains"]}
            r = v.result(decided=True, nontrivial=res["chains"] >= 200, sample=sample)
            r["walk"] = {"chains": res["chains"], "distinct": res["distinct"]}
            return r
        res = run_child(CHILD_EXEC, [str(case["events"]), str(case["seed"])], root, 900)
        if not v.check(bool(res.get("ok")), "instrumented workload ran", error=res.get("error")):
            return v.result(decided=True, nontrivial=False)
        for f in res["failures"]:
            v.check(False, "library attribute resolved at run time exists", module=f[0], chain=f[1], error=f[2])
        for e in res["workload_errors"]:
            missing = any(k in e[1] for k in ("AttributeError", "ImportError", "ModuleNotFoundError")) and any(k in e[1] for k in ("module", "numpy", "scipy", "h5py"))
            v.check(not missing,
                    "workload does not fail on a missing library interface", workload=e[0], error=e[1], where=e[2])
        v.events += res["observed"]
        sample = {"monitor": "exec (attribute chains observed at run time through recording proxies)", "observed_at_runtime": res["observed"], "wrapped_globals": res["wrapped_globals"],
                  "per_module": res["per_module"], "workload_errors (informational unless they name a missing library interface)": res["workload_errors"], "sample_chains": res["sample_chains"]}
        r = v.result(decided=True, nontrivial=res["observed"] >= 60, sample=sample)
        r["exec"] = {"observed": res["observed"]}
        return r
    finally:
        shutil.rmtree(root, ignore_errors=True)


def extra_evidence(results):
    out = {}
    for r in results:
        if "walk" in r:
            out["resolved_by_walk"] = r["walk"]
        if "exec" in r:
            out["observed_at_runtime"] = r["exec"]
    out["modules_imported"] = sum(1 for r in results if r["case"]["cls"] == "import" and r.get("nontrivial"))
    import platform
    try:
        import numpy, scipy, h5py
        out["configuration_observed"] = {"python": platform.python_version(), "numpy": numpy.__version__, "scipy": scipy.__version__, "h5py": h5py.__version__}
    except Exception as e:
        out["configuration_observed"] = repr(e)
    return out


def fx_removed_interfaces(case, viol):
    e = str(viol["detail"].get("error", ""))
    return any(k in e for k in ("np.float_", "np.complex_", "trapz", "pkg_resources", "collections' has no attribute 'Iterable"))
