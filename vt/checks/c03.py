"""C03 — ray propagation is passive, delays by the time of flight, polarization vectors are transverse.

Monitor: path.propagate(signal, polarization, attenuation_interpolation), path.attenuation(f) and path.fresnel are recorded
for ray solutions of all four tracer families; the input signal is hashed before and after.  Oracles: exact grid
relation, linearity by re-execution, an independent zero-padded FFT filter for the spectrum, an independent line integral
of ds / L_att along the oracle ray (ODE for gradient-index ice, straight segments for uniform / layered ice), textbook
Fresnel coefficients, energy accounting, orthonormality of the returned polarization vectors.
"""
import numpy as np
import scipy.fft
from vt.util import V, EPS, case_rng, rng_for
from vt import gen
from vt.oracles import rayode
from vt.checks.c01 import cancellation_bound

PROPERTY = "C03"
TITLE = "Propagation: passive, delayed by tof, transverse polarization"
TECHNIQUE = ('runtime monitoring: recorded propagate/attenuation/fresnel calls decided by an independent FFT reference filter, an ODE attenuation integral, textbook Fresnel coefficients and an energy bound; the same path object re-asked with another interpolation setting')
ANCHORS = ["pyrex.ray_tracing:BasicRayTracePath.attenuation", "pyrex.ray_tracing:SpecializedRayTracePath.attenuation", "pyrex.ray_tracing:UniformRayTracePath.attenuation",
           "pyrex.ray_tracing:BasicRayTracePath.fresnel", "pyrex.ray_tracing:UniformRayTracePath.fresnel", "pyrex.custom.layered_ice.ray_tracing:LayeredRayTracePath.fresnel",
           "pyrex.ray_tracing:BasicRayTracePath.propagate", "pyrex.ray_tracing:UniformRayTracePath.propagate",
           "pyrex.custom.layered_ice.ray_tracing:LayeredRayTracePath.propagate"]
RULE = ("one case = one endpoint pair traced by one family (Specialized over Antarctic/Greenland/AraSim, Basic, Uniform with up to 2 "
        "reflections, Layered over uniform-over-exponential and over stacks with a lower-index upper layer), every solution "
        "propagated with a Signal of N in {8..4096} samples (odd and even), dt 1e-11..1e-8, white noise / pulse / chirp, a "
        "polarization vector (generic, non-unit, along the ray, along z) and attenuation_interpolation in {None, 0.01, 0.1, 0.37, "
        "1.5}; non-trivial = at least one solution propagated and every clause evaluated; distinct = hash of the case")
ASSUMPTIONS = ["with interpolation the applied factor at a bin lies between the attenuations one log-step below and above it (A is monotone), which bounds the "
               "energy of the difference to the exact filter", "the attenuation line integral is re-computed by scipy along the oracle ray; pyrex's own z-step makes it agree to 1 % of the exponent",
               "gradient-index paths clamp the Nyquist bin to the last positive FFT frequency"]
BUDGET = {"quick": 900, "thorough": 7200}
CASE_TIMEOUT = {"quick": 300, "thorough": 600}
FAMS = ["specialized", "specialized", "basic", "uniform", "layered", "layered-lowtop"]


def gen_cases(tier, seed):
    rng = rng_for(PROPERTY, seed)
    n = 200 if tier == "quick" else 3000
    out = []
    for i in range(n):
        fam = FAMS[i % len(FAMS)]
        c = {"cls": fam, "family": fam, "salt": int(rng.integers(0, 2**31))}
        if fam == "specialized":
            c["ice"] = [{"kind": "antarctic"}, {"kind": "greenland"}, {"kind": "arasim"}][int(rng.integers(0, 3))]
            zlo = -1900.0
        elif fam == "basic":
            c["ice"] = [{"kind": "arasim"}, {"kind": "antarctic"}][int(rng.integers(0, 2))]
            zlo = -1900.0
        elif fam == "uniform":
            zlo = -float(rng.uniform(500, 2000))
            c["ice"] = {"kind": "uniform", "n": float(rng.uniform(1.3, 1.8)), "range": [zlo, 0.0], "above": 1.0, "below": [None, 1.9, 1.2][int(rng.integers(0, 3))]}
            zlo += 1
        else:
            zb = -float(rng.uniform(50, 400))
            ntop = float(rng.uniform(1.3, 1.5)) if fam == "layered" else float(rng.uniform(1.25, 1.35))
            lower = {"kind": "antarctic", "n0": 1.78, "k": 0.43, "a": 0.0132, "range": [-2000.0, zb], "above": None, "below": None}
            if fam == "layered-lowtop":
                lower = {"kind": "uniform", "n": float(rng.uniform(1.55, 1.8)), "range": [-2000.0, zb], "above": None, "below": None}
            c["ice"] = {"kind": "layered", "layers": [{"kind": "uniform", "n": ntop, "range": [zb, 0.0], "above": 1.0, "below": None}, lower], "above": 1.0, "below": None}
            zlo = -1900.0
        a = [float(rng.uniform(-500, 500)), float(rng.uniform(-500, 500)), float(rng.uniform(zlo, -1))]
        rho = float(10 ** rng.uniform(1, 3.2))
        ph = float(rng.uniform(0, 2 * np.pi))
        b = [a[0] + rho * np.cos(ph), a[1] + rho * np.sin(ph), float(rng.uniform(max(zlo, -400), -1))]
        r_lvl = rng.random()
        if fam == "uniform" and r_lvl < 0.12:
            b[2] = a[2]          # exactly equal depths: the direct path is horizontal
        elif fam in ("uniform", "layered-lowtop") and r_lvl < 0.3:
            b[2] = min(-0.5, a[2] + float(rng.choice([-1, 1])) * float(rng.uniform(0.01, 0.95)))      # nearly level: depths less than one integration step apart
        if fam == "uniform" and rng.random() < 0.3:
            # whole-number endpoints handed over as Python ints / an int array
            a = [int(round(x)) for x in a]
            b = [int(round(b[0])), int(round(b[1])), int(min(-1, round(b[2])))]
            a[2] = int(min(-1, a[2]))
            c["endpoint_type"] = ["list of int", "tuple of int", "int ndarray"][int(rng.integers(0, 3))]
        big = [8, 16, 33, 128, 257, 1024, 4096] if tier == "thorough" and fam != "basic" else [8, 16, 33, 128, 257]     # the numeric tracer integrates per frequency
        c.update({"from": a, "to": b, "N": int(rng.choice(big)),
                  "dt": float(rng.choice([1e-11, 1e-10, 1e-9, 3e-9, 1e-8])), "t0": float(rng.uniform(-1e-7, 1e-7)),
                  "values": str(rng.choice(["noise", "pulse", "chirp"])), "pol": str(rng.choice(["generic", "non-unit", "along-ray", "along-z"])),
                  "interp": [None, 0.01, 0.1, 0.37, 1.5][int(rng.integers(0, 5))]})
        out.append(c)
    return out


def make_solutions(case, ice):
    import pyrex.ray_tracing as rt
    a, b = np.array(case["from"], float), np.array(case["to"], float)
    fam = case["family"]
    if fam == "specialized":
        return list(rt.SpecializedRayTracer(a, b, ice).solutions)
    if fam == "basic":
        return list(rt.BasicRayTracer(a, b, ice, dz=1.0).solutions)
    if fam == "uniform":
        UT = type("UT2", (rt.UniformRayTracer,), {"max_reflections": 2})
        rep = {"list of int": list, "tuple of int": tuple, "int ndarray": lambda x: np.array(x, dtype=int)}.get(case.get("endpoint_type"))
        return list((UT(rep(case["from"]), rep(case["to"]), ice) if rep else UT(a, b, ice)).solutions)
    from pyrex.custom.layered_ice import LayeredRayTracer
    return list(LayeredRayTracer(a, b, ice).solutions)


def segments_and_models(p, ice):
    """Straight segments (p1, p2, ice model) of a uniform / layered-uniform path; None when a gradient leg is involved."""
    subs = p.paths if hasattr(p, "paths") else [p]
    segs = []
    for sp in subs:
        if not hasattr(sp, "_points"):
            return None
        pts = [np.asarray(q, float) for q in sp._points]
        for p1, p2 in zip(pts[:-1], pts[1:]):
            segs.append((p1, p2, sp.ice))
    return segs


def oracle_attenuation(case, p, ice, freqs):
    """exp(-integral ds / L_att(z, f)) along the oracle ray, or None when it cannot be formed for this path."""
    from scipy.integrate import quad
    fam = case["family"]
    if fam in ("specialized", "basic"):
        n0, k_, a_ = float(ice.n0), float(ice.k), float(ice.a)
        nfun, dn = rayode.profile(n0, k_, a_)
        ext = lambda z: 1.0 / np.asarray(ice.attenuation_length(float(min(z, 0.0)), freqs), float)
        res = rayode.trace_with_integrals(nfun, dn, float(ice.valid_range[1]), float(case["from"][2]), np.asarray(p.emitted_direction, float), float(p.path_length), ext, len(freqs))
        return np.exp(-res[7])
    segs = segments_and_models(p, ice)
    if segs is None:
        return None
    expo = np.zeros(len(freqs))
    for p1, p2, model in segs:
        Lseg = float(np.linalg.norm(p2 - p1))
        for j, f in enumerate(freqs):
            val, _ = quad(lambda t: 1.0 / float(model.attenuation_length(float(p1[2] + t * (p2[2] - p1[2])), float(f))), 0.0, 1.0, epsrel=1e-8, limit=200)
            expo[j] += val * Lseg
    return np.exp(-expo)


def textbook_fresnel(n1, n2, sin1):
    cos1 = np.sqrt(max(1 - sin1 ** 2, 0.0))
    sin2 = n1 / n2 * sin1
    cos2 = np.sqrt(1 - sin2 ** 2) if sin2 <= 1 else 1j * np.sqrt(sin2 ** 2 - 1)
    rs = (n1 * cos1 - n2 * cos2) / (n1 * cos1 + n2 * cos2)
    rp = (n2 * cos1 - n1 * cos2) / (n2 * cos1 + n1 * cos2)
    return abs(rs), abs(rp)


def run_case(case):
    from pyrex.signals import Signal
    v = V()
    rng = case_rng(case, case["salt"])
    ice = gen.make_ice(case["ice"])
    fam = case["family"]
    geo = {"family": fam, "from": case["from"], "to": case["to"], "interp": case["interp"], "N": case["N"], "dt": case["dt"], "endpoint_type": case.get("endpoint_type", "float ndarray")}
    try:
        sols = make_solutions(case, ice)
    except Exception as e:      # noqa: BLE001 -- tracer failures belong to C01/C02; here there is nothing to propagate
        return v.result(decided=False, nontrivial=False, sample=dict(geo, tracer_error=type(e).__name__), skip="tracer_failed")
    if not sols:
        return v.result(decided=True, nontrivial=False, sample=dict(geo, solutions=0))
    N, dt = case["N"], case["dt"]
    t = case["t0"] + np.arange(N) * dt
    k = np.arange(N)
    vals = {"noise": rng.normal(size=N), "pulse": np.exp(-((k - N / 3) / max(N / 20, 1.0)) ** 2) * np.cos(0.9 * k), "chirp": np.sin(0.03 * k * k / max(N, 1) * 40 + 0.2 * k)}[case["values"]]
    vals2 = rng.normal(size=N)
    kw = {"attenuation_interpolation": case["interp"]}
    done = 0
    for j, p in enumerate(sols[:3]):
        em, rd = np.asarray(p.emitted_direction, float), np.asarray(p.received_direction, float)
        pol = {"generic": rng.normal(size=3), "non-unit": rng.normal(size=3) * 7.3, "along-ray": em * 1.7, "along-z": np.array([0.0, 0.0, 1.0])}[case["pol"]]
        if abs(abs(em[2]) - 1) < 1e-12:
            continue      # exactly vertical emission: the s-direction (cross product with z) is undefined
        det = dict(geo, solution=j, L=float(p.path_length))
        s = Signal(t, vals, "field")
        s2 = Signal(t, vals2, "field")
        before = (s.times.copy(), s.values.copy(), s.value_type)
        try:
            (ss, sp), (us, up) = p.propagate(signal=s, polarization=pol, **kw)
        except TypeError as e:
            if "attenuation_interpolation" not in str(e):
                raise
            v.check(False, "every path's propagate accepts an attenuation interpolation step", error=str(e)[:160], path_class=type(p).__name__, **det)
            kw = {}
            (ss, sp), (us, up) = p.propagate(signal=s, polarization=pol)
        v.check(np.array_equal(s.times, before[0]) and np.array_equal(s.values, before[1]) and s.value_type == before[2], "the input signal is left untouched", **det)
        # (1) the input grid delayed by the time of flight
        want = t + p.tof
        v.check(np.array_equal(ss.times, want) and np.array_equal(sp.times, want), "output grid == input grid + time of flight",
                max_dev=float(max(np.max(np.abs(ss.times - want)), np.max(np.abs(sp.times - want)))) if len(ss.times) == N and len(sp.times) == N else None, tof=float(p.tof), **det)
        sc = max(float(np.max(np.abs(vals))) * float(np.linalg.norm(pol)), 1e-300)
        # (2) linear in the signal and in the polarization vector
        a_, b_ = rng.normal(size=2)
        comb = Signal(t, a_ * vals + b_ * vals2, "field")
        (cs, cp), _ = p.propagate(signal=comb, polarization=pol, **kw)
        (s2s, s2p), _ = p.propagate(signal=s2, polarization=pol, **kw)
        lin = max(float(np.max(np.abs(cs.values - (a_ * ss.values + b_ * s2s.values)))), float(np.max(np.abs(cp.values - (a_ * sp.values + b_ * s2p.values)))))
        v.close("linear in the signal", lin / (sc * (1 + float(np.max(np.abs(vals2))))), 1e-9 * (1 + abs(a_) + abs(b_)), **det)
        pol2 = rng.normal(size=3)
        (qs, qp), _ = p.propagate(signal=s, polarization=2.5 * pol - 0.7 * pol2, **kw)
        (rs_, rp_), _ = p.propagate(signal=s, polarization=pol2, **kw)
        pl = max(float(np.max(np.abs(qs.values - (2.5 * ss.values - 0.7 * rs_.values)))), float(np.max(np.abs(qp.values - (2.5 * sp.values - 0.7 * rp_.values)))))
        v.close("linear in the polarization vector", pl / (sc + float(np.max(np.abs(vals))) * float(np.linalg.norm(pol2))), 1e-9, **det)
        # (5) Fresnel coefficients
        fr = np.abs(np.array(p.fresnel, dtype=complex))
        det_f = dict(det, fresnel=fr.tolist())
        lowtop = False
        if hasattr(p, "paths"):
            for s1_, s2_ in zip(p.paths[:-1], p.paths[1:]):
                d1, d2 = np.asarray(s1_.received_direction, float), np.asarray(s2_.emitted_direction, float)
                if np.sign(d1[2]) == np.sign(d2[2]) and float(s1_.ice.index(float(s1_.to_point[2]))) > float(s2_.ice.index(float(s2_.from_point[2]))):
                    lowtop = True
        det_f["transmission_into_lower_index"] = lowtop
        v.check(bool(np.all(fr <= 1 + 1e-12)), "Fresnel coefficients have magnitude at most 1", **det_f)
        if fam in ("specialized", "basic"):
            nfun, _dn = rayode.profile(float(ice.n0), float(ice.k), float(ice.a))
            ztop = float(ice.valid_range[1])
            beta = float(nfun(case["from"][2]) * np.hypot(em[0], em[1]))
            reaches = (not p.direct) and beta < nfun(ztop) * (1 - 1e-9)
            tb = textbook_fresnel(float(nfun(ztop)), float(ice.index_above), beta / float(nfun(ztop))) if reaches else (1.0, 1.0)
            if (not p.direct) and abs(beta - nfun(ztop)) <= 1e-6 * nfun(ztop):
                pass       # grazing the surface: either answer
            else:
                v.close("Fresnel coefficients == textbook reflection at the surface (1 when the ray does not reach it)", float(max(abs(fr[0] - tb[0]), abs(fr[1] - tb[1]))), 1e-6, textbook=list(tb), **det_f)
        if fam == "uniform":
            # straight path with bounces off the ice boundaries: textbook product of the reflection coefficients, from the geometry alone
            pts_ = [np.asarray(q, float) for q in p._points]
            n1_ = float(ice.index(float(0.5 * (pts_[0][2] + pts_[-1][2]))))
            ts, tp = 1.0, 1.0
            for q1, q2 in zip(pts_[:-2], pts_[1:-1]):
                seg = q2 - q1
                sin1 = float(np.hypot(seg[0], seg[1]) / np.linalg.norm(seg))
                n2_ = ice.index_above if seg[2] > 0 else ice.index_below
                if n2_ is None:
                    ts = None
                    break
                r1, r2 = textbook_fresnel(n1_, float(n2_), sin1)
                ts *= r1
                tp *= r2
            if ts is not None:
                v.close("uniform-ice Fresnel factor == product of the textbook reflection coefficients at its bounces", float(max(abs(fr[0] - ts), abs(fr[1] - tp))), 1e-6,
                        textbook=[ts, tp], bounces=len(pts_) - 2, **det_f)
        if hasattr(p, "paths") and all(hasattr(sp, "_points") and len(sp._points) == 2 for sp in p.paths):
            # layered path made of straight legs: textbook product of the junction coefficients from the leg geometry alone
            # (keeps the known finding "transmission amplitude > 1" bounded: the magnitude must still be the textbook one)
            ts, tp = 1.0, 1.0
            lay_ice = ice
            for s1_, s2_ in zip(p.paths[:-1], p.paths[1:]):
                a1, b1 = np.asarray(s1_._points[0], float), np.asarray(s1_._points[1], float)
                a2, b2 = np.asarray(s2_._points[0], float), np.asarray(s2_._points[1], float)
                seg1, seg2 = b1 - a1, b2 - a2
                n1_ = float(s1_.ice.index(float(0.5 * (a1[2] + b1[2]))))
                sin1 = float(np.hypot(seg1[0], seg1[1]) / np.linalg.norm(seg1))
                cos1 = float(np.sqrt(max(1 - sin1 ** 2, 0.0)))
                if np.sign(seg1[2]) == np.sign(seg2[2]):
                    n2_ = float(s2_.ice.index(float(0.5 * (a2[2] + b2[2]))))
                    sin2 = n1_ / n2_ * sin1
                    cos2 = np.sqrt(1 - sin2 ** 2) if sin2 <= 1 else 1j * np.sqrt(sin2 ** 2 - 1)
                    ts *= abs(2 * n1_ * cos1 / (n1_ * cos1 + n2_ * cos2))
                    tp *= abs(2 * n1_ * cos1 / (n2_ * cos1 + n1_ * cos2))
                else:
                    zb_ = float(b1[2])
                    bnds = list(lay_ice.boundaries)
                    ib = int(np.argmin([abs(zb_ - bb) for bb in bnds]))
                    if seg1[2] > 0:
                        n2_ = lay_ice.index_above if ib == 0 else float(lay_ice.layers[ib - 1].index(zb_ + 1e-9))
                    else:
                        n2_ = lay_ice.index_below if ib == len(lay_ice.layers) else float(lay_ice.layers[ib].index(zb_ - 1e-9))
                    if n2_ is None:
                        ts = tp = None
                        break
                    r1, r2 = textbook_fresnel(n1_, float(n2_), sin1)
                    ts *= r1
                    tp *= r2
            if ts is not None:
                v.close("layered Fresnel factor == product of the textbook junction coefficients", float(max(abs(fr[0] - ts), abs(fr[1] - tp))), 1e-6, textbook=[ts, tp], **det_f)
        # (6) passive: never more energy out than in
        ein = float(np.sum(vals ** 2) * np.dot(pol, pol))
        eout = float(np.sum(ss.values ** 2) + np.sum(sp.values ** 2))
        v.check(eout <= ein * (1 + 1e-9) + 1e-300, "output carries no more energy than the input", ratio=eout / ein if ein > 0 else None, **det_f)
        # (7) returned polarization vectors
        us, up = np.asarray(us, float), np.asarray(up, float)
        chk = max(abs(np.linalg.norm(us) - 1), abs(np.linalg.norm(up) - 1), abs(np.dot(us, up)), abs(np.dot(us, rd)), abs(np.dot(up, rd)))
        v.close("returned polarization vectors are unit, orthogonal and perpendicular to the received direction", float(chk), 1e-9, u_s=us.tolist(), u_p=up.tolist(), received=rd.tolist(), **det)
        # (4) attenuation factor
        fgrid = np.array([0.0, 1e7, 1e8, 3e8, 1e9, 3e9])
        att = np.asarray(p.attenuation(fgrid), float)
        attn = np.asarray(p.attenuation(-fgrid), float)
        v.check(bool(np.all(att >= 0) and np.all(att <= 1 + 1e-12)), "attenuation factor lies in (0, 1]", attenuation=att.tolist(), **det)
        v.check(bool(np.all(np.diff(att) <= 1e-12 * att[:-1] + 1e-300)), "attenuation does not grow with |f|", attenuation=att.tolist(), **det)
        v.close("attenuation is even in f", float(np.max(np.abs(att - attn))), 1e-12, **det)
        fo = np.array([1e8, 3e8, 1e9])
        ora = oracle_attenuation(case, p, ice, fo)
        if ora is not None:
            mine = np.asarray(p.attenuation(fo), float)
            with np.errstate(divide="ignore"):
                e_p, e_o = -np.log(np.maximum(mine, 1e-300)), -np.log(np.maximum(ora, 1e-300))
            cb = 0.0
            if fam == "specialized":
                beta_ = float(ice.index(float(case["from"][2])) * np.hypot(em[0], em[1]))
                cb = cancellation_bound(float(ice.n0), float(ice.k), float(ice.a), beta_, min(case["from"][2], case["to"][2]), float(getattr(p, "uniformity_factor", 0.99999))) / float(p.path_length)
            decide = e_o < 600
            v.close("attenuation == exp(-integral of ds / L_att) along the ray", float(np.max(np.abs(e_p - e_o)[decide] / np.maximum(e_o[decide], 1e-3))) if decide.any() else 0.0,
                    2e-2, pyrex=mine.tolist(), oracle=ora.tolist(), cancellation_rel=cb, **det)
        # (3) spectrum: independent filter on the 2N-padded grid
        M = 2 * N
        fr2 = scipy.fft.fftfreq(M, d=float(t[1] - t[0]))
        u_s0 = np.cross(em, [0, 0, 1.0])
        u_s0 = u_s0 / np.linalg.norm(u_s0)
        u_p0 = np.cross(u_s0, em)
        u_p0 = u_p0 / np.linalg.norm(u_p0)
        r_s, r_p = [complex(x) for x in p.fresnel]
        fmax_pos = float(np.max(fr2))
        fabs = np.abs(fr2)
        if fam in ("specialized", "basic"):
            fabs = np.minimum(fabs, fmax_pos)          # the Nyquist bin is clamped to the last positive FFT frequency
        A = np.asarray(p.attenuation(fabs), float)
        fabs_true = np.abs(fr2)
        A_true = np.asarray(p.attenuation(fabs_true), float)     # without force_real the response is evaluated at every FFT frequency itself

        def spec_clause(label, pc, r_c, out_values, interp, det=det, A=A, fr2=fr2, fabs=fabs, fmax_pos=fmax_pos, p=p):
            if label.startswith("unpolarized"):
                A, fabs = A_true, fabs_true
            H = A * r_c
            H = np.where(fr2 < 0, np.conj(H), H)
            spec = scipy.fft.fft(np.concatenate((vals * pc, np.zeros(N))))
            exact = np.real(scipy.fft.ifft(H * spec))[:N]
            scale = max(float(np.max(np.abs(vals))) * abs(pc), 1e-300)
            if interp is None:
                v.close("each frequency component is multiplied by attenuation x Fresnel coefficient (%s)" % label,
                        float(np.max(np.abs(exact - out_values))) / scale, 1e-8, **det)
            else:
                step = 10 ** interp
                lo_f, hi_f = fabs / step, np.minimum(fabs * step, fmax_pos * step)
                fpos = fabs[fabs > 0]
                fmin_pos = float(np.min(fpos)) if len(fpos) else 0.0
                lo_f = np.where(fabs <= fmin_pos, 0.0, lo_f)
                b_ = np.asarray(p.attenuation(lo_f), float) - np.asarray(p.attenuation(hi_f), float)
                b_[fabs == 0] = 0.0
                bound = float(np.sum((b_ * abs(r_c) * np.abs(spec)) ** 2) / M)
                diff = float(np.sum((exact - out_values) ** 2))
                v.check(diff <= bound * (1 + 1e-6) + 1e-18 * scale ** 2 * N, "with interpolation the applied factor stays between the attenuations one step below and above each frequency (%s)" % label,
                        energy_of_difference=diff, bound=bound, **det)

        spec_clause("s component", float(np.dot(pol, u_s0)), r_s, ss.values, case["interp"])
        spec_clause("p component", float(np.dot(pol, u_p0)), r_p, sp.values, case["interp"])
        if j == 0:
            # unpolarized mode on the same path object: attenuation and delay only ...
            un = p.propagate(signal=s, **kw)
            v.check(np.array_equal(un.times, t + p.tof), "unpolarized propagation also delays by the time of flight", **det)
            spec_clause("unpolarized", 1.0, 1.0, un.values, case["interp"])
            # ... and the same path object asked again with another interpolation setting answers for that setting
            other = None if case["interp"] is not None else 0.37
            if kw:
                (os_, op_), _ = p.propagate(signal=s, polarization=pol, attenuation_interpolation=other)
                spec_clause("s component, second interpolation setting on the same path", float(np.dot(pol, u_s0)), r_s, os_.values, other)
                un2 = p.propagate(signal=s, attenuation_interpolation=other)
                spec_clause("unpolarized, second interpolation setting on the same path", 1.0, 1.0, un2.values, other)
        done += 1
    # unpolarized mode: only attenuation and delay
    p = sols[0]
    s = Signal(t, vals, "field")
    try:
        out = p.propagate(signal=s, **kw)
        v.check(np.array_equal(out.times, t + p.tof), "unpolarized propagation also delays by the time of flight", **geo)
        v.check(float(np.sum(out.values ** 2)) <= float(np.sum(vals ** 2)) * (1 + 1e-9), "unpolarized propagation is passive", **geo)
    except TypeError:
        raise
    sample = dict(geo, solutions=len(sols), propagated=done, polarization=case["pol"], values=case["values"])
    return v.result(decided=True, nontrivial=done > 0, sample=sample)


def kf_transmission_into_lower_index(case, viol):
    """Amplitude transmission coefficient t = 2 n1 cos1 / (n1 cos1 + n2 cos2) > 1 when n1 > n2: correct physics."""
    d = viol["detail"]
    return d.get("transmission_into_lower_index") is True and viol["clause"] in ("Fresnel coefficients have magnitude at most 1", "output carries no more energy than the input")


def kf_cancellation(case, viol):
    d = viol["detail"]
    return viol["clause"].startswith("attenuation == exp") and d.get("cancellation_rel", 0) > 0 and d["deviation"] <= d["tolerance"] + 3 * d["cancellation_rel"]


def fx_propagate_keyword(case, viol):
    return viol["clause"] == "every path's propagate accepts an attenuation interpolation step"
