"""C11 — the HDF5 write/read round trip returns each event's own data, for every configuration.

Monitor shapes: (a) history + shadow model: a generated sequence of add() calls (accepted and rejected) is applied to the
real HDF5Writer while vt/h5common.py records what each accepted add must have stored; the file is then read back through
the public accessors; (b) icontract post-condition on the real HDF5Writer.add -- "the event index table has one row per
accepted add and every (start, length) entry addresses rows inside its dataset" -- also evaluated after every *rejected* add.
"""
import os
import shutil
import tempfile
import numpy as np
from vt.util import V, case_rng, rng_for
from vt import h5common as h5

PROPERTY = "C11"
TITLE = "HDF5 write/read round trip"
NEEDS_ICONTRACT = True
TECHNIQUE = ("runtime monitoring: add() histories (accepted and rejected) on the real HDF5Writer against a shadow model of what must be stored, read back through every accessor form; icontract post-condition on HDF5Writer.add (also evaluated while the repository's own tests run)")
ANCHORS = ["pyrex.io:HDF5Writer.add", "pyrex.io:HDF5Writer._write_particles", "pyrex.io:HDF5Writer._write_trigger", "pyrex.io:HDF5Writer._write_ray_data",
           "pyrex.io:HDF5Writer._write_noise_data", "pyrex.io:HDF5Writer._write_waveforms", "pyrex.io:HDF5Writer._write_indices",
           "pyrex.io:EventIterator._load_data", "pyrex.io:HDF5Reader.__len__"]
RULE = ("one case = one file: 1-5 antennas (noisy or not), a random combination of the six write_* options that records "
        "particles, require_trigger True / False / a random list, a sequence of 0-12 adds with 1-5 particles, 0-3 rays per "
        "antenna (different per antenna and per event), bool / dict / per-waveform-list triggers, antennas queried or not "
        "before the add, and interleaved rejected adds of eight kinds (ValueError and TypeError refusals); non-trivial = at least two accepted events with "
        "different row counts were read back and compared; distinct = hash of the case")
ASSUMPTIONS = ["'particles not recorded' is accepted as ValueError('... not saved ...') when no event of the file recorded particles",
               "ray paths are stand-ins exposing only `_metadata`, which is all the writer reads"]
BUDGET = {"quick": 900, "thorough": 7200}
CASE_TIMEOUT = {"quick": 300, "thorough": 600}
_STATE = {"evals": 0}


class PostBroken(AssertionError):
    pass


def index_table_ok(self):
    """One index row per accepted add; every (start, length) inside its dataset."""
    _STATE["evals"] += 1
    return _index_problem(self) is None


def _index_problem(w):
    try:
        f = w._file
        ind = f[w._data_locs["indices"]]
        count = w._counters["indices"]
    except Exception:       # noqa: BLE001 -- internals renamed: unobservable, not a violation
        return None
    if ind.shape[0] != count:
        return "index table has %d rows for %d accepted adds" % (ind.shape[0], count)
    keys = [k.decode() if isinstance(k, bytes) else str(k) for k in ind.attrs["keys"]]
    arr = ind[:]
    for i, key in enumerate(keys):
        if key not in f:
            continue
        obj = f[key]
        nrows = obj.shape[0] if hasattr(obj, "shape") else min(obj[n].shape[0] for n in obj)
        for ev in range(arr.shape[0]):
            start, length = int(arr[ev, i, 0]), int(arr[ev, i, 1])
            if start < 0 or length < 0 or start + length > nrows:
                return "event %d table %s: rows [%d, %d) outside a dataset of %d rows" % (ev, key, start, start + length, nrows)
    return None


def setup():
    import icontract
    import pyrex.io as pio
    if not getattr(pio.HDF5Writer.add, "_vt_wrapped", False):
        wrapped = icontract.ensure(index_table_ok, error=PostBroken)(pio.HDF5Writer.add)
        wrapped._vt_wrapped = True
        pio.HDF5Writer.add = wrapped


def gen_cases(tier, seed):
    rng = rng_for(PROPERTY, seed)
    n = 160 if tier == "quick" else 5000
    out = []
    for i in range(n):
        nant = int(rng.integers(1, 6))
        opts, req = h5.random_options(rng)
        cls = "all-options" if all(opts.values()) else ("trigger-only-list" if isinstance(req, list) else ("require-trigger" if req else "no-trigger-requirement"))
        nev = int(rng.integers(0, 13))
        out.append({"cls": cls, "nant": nant, "noisy": bool(rng.integers(0, 2)), "opts": opts, "req": req, "plan": h5.plan_events(rng, nev, nant), "salt": int(rng.integers(0, 2**31))})
    out.append({"cls": "repo-suite", "files": ['tests/test_io.py', 'tests/test_kernel.py']})      # the repository's own tests as one more workload for the contract
    return out


def run_case(case):
    if case["cls"] == "repo-suite":
        from vt import suite
        v_ = V()
        rep = suite.run("c11", case["files"])
        evals = sum(sum(x for x in d.values() if isinstance(x, int)) for d in rep.get("contract_evaluations", {}).values())
        v_.events += evals
        for f_ in rep.get("contract_failures", []):
            v_.check(False, "contract holds while the repository's own tests run", test=f_["test"], message=f_["message"])
        sample_ = {"workload": "repository test files under the contract", "files": rep.get("files"), "tests_collected": rep.get("collected"), "contract_evaluations": evals, "pytest": rep.get("tail")}
        if rep.get("returncode") != 0 and not rep.get("contract_failures"):
            return v_.result(decided=False, nontrivial=False, sample=sample_, skip="repository tests did not pass under the plugin")
        return v_.result(decided=True, nontrivial=evals >= 50, sample=sample_)
    from pyrex.io import File
    v = V()
    np.random.seed(case["salt"] % 2**32)
    ants = h5.make_antennas(case["nant"], case["noisy"])
    opts, req = case["opts"], case["req"]
    d = tempfile.mkdtemp(prefix="vt_c11_")
    fn = os.path.join(d, "f.h5")
    cfg = {"options": {k: val for k, val in opts.items()}, "require_trigger": req, "antennas": case["nant"], "noisy": case["noisy"]}
    model, rejected, log = [], 0, []
    try:
        w = h5.open_writer(fn, "w", opts, req, ants)

        def on_reject(wr, exc):
            prob = _index_problem(wr)
            _STATE["evals"] += 1
            v.check(prob is None, "a rejected add leaves the index table consistent with the accepted adds", problem=prob, rejected_with=exc, accepted_so_far=len(model), **cfg)
        evals0 = _STATE["evals"]
        i = 0
        for step in case["plan"]:
            try:
                rec, rej = h5.do_add(w, ants, step, i, opts, req, on_reject=on_reject)
            except PostBroken as e:
                v.check(False, "after every accepted add the index table addresses rows inside the datasets", problem=_index_problem(w), contract=str(e)[:200], accepted_so_far=len(model), **cfg)
                break
            rejected += rej
            if rec == "accepted-bad":
                # an add the harness expected to be refused was accepted: what it stored is unknown to the model, so the
                # rest of this file cannot be decided (acceptance of odd input is not itself against the property)
                w.close()
                return v.result(decided=False, nontrivial=False, sample=dict(cfg, bad_kind=step["bad"]), skip="planned rejected add was accepted")
            log.append({"particles": step["npart"], "rays": step["nr"], "trigger": step["trig"] if isinstance(step["trig"], bool) else sorted(step["trig"]), "rejected_first": step["bad"]})
            model.append(rec)
            i += 1
        v.events += _STATE["evals"] - evals0
        w.close()
        if v.violations:
            return v.result(decided=True, nontrivial=True, sample=dict(cfg, adds=log))
        # ---- read back
        with File(fn, "r") as f:
            n = len(f)
            if v.check(n == len(model), "the file holds as many events as were accepted", stored=n, accepted=len(model), rejected_adds=rejected, adds=log[-4:], **cfg) and n > 0:
                got = []
                for k, e in enumerate(f):
                    got.append(h5.getrec(e))
                    prob = h5.accessor_problem(e)
                    v.check(prob is None, "narrowed accessors (one attribute / antenna / ray) return the same data as the full ones", event=k, accessor=prob[0] if prob else None,
                            **dict(cfg, **(prob[1] if prob else {})))
                v.check(len(got) == n, "iteration yields every event", iterated=len(got), stored=n, **cfg)
                # reader-level access by (event, antenna, waveform number): the event's own waveform, or nothing when that event has
                # no such waveform - never a row of another event (numbers up to two past the event's count are asked for)
                for k, o in enumerate(got):
                    wv = o.get("waves")
                    if isinstance(wv, str) or wv is None:
                        continue
                    own = wv
                    cnt = len(wv)
                    for a_ in range(case["nant"]):
                        for w_ in range(cnt + 2):
                            try:
                                r_ = np.asarray(f.get_waveforms(event_id=k, antenna_id=a_, waveform_type=w_), dtype=object)
                            except ValueError:
                                r_ = None
                            if w_ < cnt:
                                own_ = own[w_][a_]          # (times, values) of that waveform
                                ok_ = (r_ is not None and len(r_) == len(own_)
                                       and all(np.array_equal(np.asarray(r_[j_], float), np.asarray(own_[j_], float)) for j_ in range(len(own_))))
                            else:
                                ok_ = r_ is None or r_.size == 0
                            if not v.check(ok_, "reader-level waveform access by (event, antenna, number) returns that event's own waveform or nothing", event=k, antenna=a_, number=w_,
                                           waveforms_of_event=cnt, returned=None if r_ is None else list(r_.shape), **cfg):
                                break
                for k, (m, o) in enumerate(zip(model, got)):
                    prob = h5.cmp_model(m, o, case["nant"], where="event %d of %d" % (k, n))
                    if prob:
                        v.check(False, prob[0], **dict(cfg, **prob[1], adds=log[max(0, k - 1):k + 1]))
                    else:
                        v.check(True, "event matches")
                v.check(int(f.total_events_thrown) == sum(m["thrown"] for m in model if m["energies"]), "the file's total of thrown events == the sum over the adds that recorded particles",
                        stored=int(f.total_events_thrown), expected=sum(m["thrown"] for m in model if m["energies"]), **cfg) if any(m["energies"] for m in model) and rejected == 0 else None      # a rejected add may already have counted its throws
            elif n == 0 and len(model) == 0:
                v.check(list(iter(f)) == [], "a file without events iterates over nothing", **cfg)
    finally:
        shutil.rmtree(d, ignore_errors=True)
    sizes = {(len(m["energies"]), m["maxw"]) for m in model}
    sample = dict(cfg, accepted=len(model), rejected=rejected, adds=log[:4])
    return v.result(decided=True, nontrivial=len(model) >= 2 and len(sizes) >= 2, sample=sample)


def extra_evidence(results):
    return {"contract": "icontract.ensure(index_table_ok) on the real HDF5Writer.add; the same condition is evaluated by hand after every rejected add"}


# fixed findings (listed in the evidence; they suppress nothing)
def fx_phantom_event(case, viol):
    return viol["clause"] == "a rejected add leaves the index table consistent with the accepted adds"


def fx_orphan_rows(case, viol):
    return viol["clause"] == "particles of the i-th event == those of the i-th accepted add"


def fx_antenna_trigger_column(case, viol):
    return viol["clause"] == "triggered components == those recorded"


def fx_noise_before_waveforms(case, viol):
    return viol["clause"] == "noise bases == those that produced the stored waveforms"


def fx_no_particle_table(case, viol):
    return viol["clause"] == "unexpected exception from pyrex" and "particles" in viol["detail"].get("message", "")


def fx_no_index_row(case, viol):
    return viol["clause"] == "after every accepted add the index table addresses rows inside the datasets"
