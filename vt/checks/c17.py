"""C17 — thermal noise is band-limited, has the requested RMS and is a function of absolute time.

Monitor: recorded waveforms of FFTThermalNoise / FullThermalNoise on generated grids and bands; oracle: the explicit
cosine sum built from the *published* freqs / amps / phases / rms, DFT band power over one full period, statistics
of the default Rayleigh amplitudes, re-gridding onto arbitrary windows.
"""
import numpy as np
from vt.util import V, case_rng, rng_for

PROPERTY = "C17"
TITLE = "Thermal noise"
TECHNIQUE = ('runtime monitoring: recorded noise waveforms decided by the explicit cosine sum of the published basis, DFT band power, RMS relations and re-gridding in absolute time; decoy noise objects with the same sampling created first')
ANCHORS = ["pyrex.signals:FFTThermalNoise.__init__", "pyrex.signals:FullThermalNoise.__init__", "pyrex.signals:FunctionSignal.with_times",
           "pyrex.signals:FunctionSignal.values"]
RULE = ("one case = (implementation FFT/Full, N in 16..4096, dt 1e-10..1e-8, grid offset, band class inside/touching-zero/"
        "reaching-Nyquist/above-Nyquist/empty/narrow, amplitudes constant/callable/scalar-only callable/default Rayleigh, "
        "uniqueness factor 1..10, rms given or from (T,R)); a 'rayleigh-mean' case draws 300 realisations; non-trivial = the "
        "band contains at least one frequency and the cosine-sum model was compared; distinct = hash of the case")
ASSUMPTIONS = ["FFT implementation: cos(2 pi f (t - t_start) - phase) on the grid, linear interpolation between grid points, period N_all*dt",
               "Full implementation: cos(2 pi f t + phase) at any t", "Rayleigh mean accepted within 5.5 standard errors"]
BUDGET = {"quick": 400, "thorough": 3600}


def gen_cases(tier, seed):
    rng = rng_for(PROPERTY, seed)
    n = 400 if tier == "quick" else 8000
    out = []
    bands = ["inside", "inside", "touching-zero", "reaching-nyquist", "above-nyquist", "empty", "narrow"]
    for i in range(n):
        impl = ["fft", "full"][i % 2]
        band = bands[(i // 2) % len(bands)]
        if i % 40 == 39:
            out.append({"cls": "rayleigh-mean", "impl": ["fft", "full"][(i // 40) % 2], "N": int(rng.choice([128, 256])), "dt": 1e-9, "offset": 0.0, "band": [0.1, 0.3],
                        "amp": "default", "uq": 1, "rms_mode": "rms"})
            continue
        N = int(rng.choice([16, 17, 64, 100, 257, 512, 1024, 4096])) if impl == "fft" else int(rng.choice([16, 17, 64, 100, 257]))
        if N > 600 and tier == "quick":
            N = 257
        dt = float(10 ** rng.uniform(-10, -8))
        lo, hi = sorted(rng.uniform(0.02, 0.9, size=2))
        if hi - lo < 0.05:
            hi = lo + 0.05
        if band == "touching-zero":
            lo = 0.0
        elif band == "reaching-nyquist":
            hi = 1.0
        elif band == "above-nyquist":
            hi = float(rng.uniform(1.05, 1.6))
        elif band == "empty":
            c = (int(rng.integers(2, N // 2 - 1)) + 0.5) / (N // 2)        # between two FFT bins (uniqueness 1)
            lo, hi = c * (1 - 1e-3), c * (1 + 1e-3)
        elif band == "narrow":
            hi = lo + float(rng.uniform(0.002, 0.02))
        uq = 1 if band == "empty" else int(rng.integers(1, 11))
        if impl == "full":
            uq = int(rng.integers(1, 4))
        out.append({"cls": impl + ":" + band, "impl": impl, "N": N, "dt": dt, "offset": float(rng.uniform(-1e-6, 1e-6)),
                    "band": [float(lo), float(hi)], "amp": str(rng.choice(["constant", "constant", "callable", "scalar-only", "default", "sign-changing", "negative-constant"])),
                    "uq": uq, "rms_mode": str(rng.choice(["rms", "rms", "TR", "rms", "TR", "zero", "zero+TR"]))})
    return out


def build(case, t, sg):
    cls = sg.FFTThermalNoise if case["impl"] == "fft" else sg.FullThermalNoise
    fny = 0.5 / (t[1] - t[0])
    band = (case["band"][0] * fny, case["band"][1] * fny)
    kw = {"uniqueness_factor": case["uq"]}
    if case["amp"] == "constant":
        kw["f_amplitude"] = 1.0
    elif case["amp"] == "callable":
        kw["f_amplitude"] = lambda f: 1.0 + 0.5 * np.cos(np.asarray(f) / fny * 7)
    elif case["amp"] == "sign-changing":
        kw["f_amplitude"] = lambda f: np.cos(np.asarray(f) / fny * 7) + 0.2          # a weight that goes negative inside the band: the sign belongs to the published amplitude
    elif case["amp"] == "negative-constant":
        kw["f_amplitude"] = -1.5
    elif case["amp"] == "scalar-only":
        kw["f_amplitude"] = lambda f: 1.0 + 0.5 * float(np.cos(float(f) / fny * 7))
    if case["rms_mode"] == "rms":
        kw["rms_voltage"] = 2.5
    elif case["rms_mode"] == "zero":
        kw["rms_voltage"] = [0, 0.0][case["N"] % 2]         # a requested RMS of exactly zero
    elif case["rms_mode"] == "zero+TR":
        kw["rms_voltage"], kw["temperature"], kw["resistance"] = [0, 0.0][case["N"] % 2], 300.0, 50.0     # the explicit RMS takes precedence
    else:
        kw["temperature"], kw["resistance"] = 300.0, 50.0
    return cls(t, band, **kw), band, fny


def fft_model(n, t_query, t_start, dt, n_all):
    """rms*sqrt(2/n)*sum a cos(2 pi f (t - t_start) - phi) on the grid, linear between grid points, period n_all*dt."""
    def on_grid(k):
        tt = (np.asarray(k) % n_all) * dt
        out = np.zeros(len(tt))
        for f, a, ph in zip(n.freqs, n.amps, n.phases):
            out += a * np.cos(2 * np.pi * f * tt - ph)
        return n.rms * np.sqrt(2 / len(n.freqs)) * out
    x = (np.asarray(t_query) - t_start) / dt
    k0 = np.floor(x + 1e-9).astype(np.int64)
    frac = x - k0
    # (no snapping of small fractions: a fraction of 1e-7 is a genuine off-grid time, and a round-off fraction of +-1e-12 next
    # to a sample changes the interpolated value by 1e-12 of a sample difference)
    return on_grid(k0) * (1 - frac) + on_grid(k0 + 1) * frac


def full_model(n, t_query):
    tq = np.asarray(t_query)
    out = np.zeros(len(tq))
    for f, a, ph in zip(n.freqs, n.amps, n.phases):
        out += a * np.cos(2 * np.pi * f * tq + ph)
    return n.rms * np.sqrt(2 / len(n.freqs)) * out


def run_case(case):
    import pyrex.signals as sg
    import scipy.constants
    v = V()
    rng = case_rng(case)
    N, dt = case["N"], case["dt"]
    t = case["offset"] + np.arange(N) * dt
    dts = t[1] - t[0]
    if case["cls"] == "rayleigh-mean":
        ms = []
        for i in range(300):
            n, band, fny = build(case, t, sg)
            if case["impl"] == "fft":
                vals = n.values
            else:
                vals = n.with_times(t[0] + np.arange(4 * N) * dt).values    # longer window: finite-window beat terms average out
            ms.append(np.mean(vals ** 2) / n.rms ** 2)
        m, se = float(np.mean(ms)), float(np.std(ms) / np.sqrt(len(ms)))
        v.close("default Rayleigh amplitudes give the requested RMS on average", abs(m - 1.0), 5.5 * se + (0.0 if case["impl"] == "fft" else 0.02), mean=m, se=se)
        return v.result(decided=True, nontrivial=True, sample={"impl": case["impl"], "realisations": 300, "mean_rms2_over_requested": m, "se": se})
    if rng.random() < 0.5:
        # another noise object with the same sampling, band and options but another window, created and read first
        decoy, _, _ = build(case, t + float(rng.choice([-1, 1])) * (3.5 + 10 * rng.random()) * N * dt, sg)
        decoy.values
    n, band, fny = build(case, t, sg)
    impl = case["impl"]
    if case["rms_mode"].startswith("zero"):
        z_ = np.array(n.values)
        v.check(float(n.rms) == 0.0 and z_.shape == (N,) and not np.any(z_), "a requested RMS voltage of zero gives rms == 0 and an all-zero waveform", rms=float(n.rms), maxabs=float(np.max(np.abs(z_))) if z_.size else None,
                temperature_and_resistance_also_given=case["rms_mode"] == "zero+TR")
        w_ = np.array(n.with_times(t[0] + np.arange(7) * dt * 1.3).values)
        v.check(not np.any(w_), "a requested RMS voltage of zero gives rms == 0 and an all-zero waveform", regridded=True)
        return v.result(decided=True, nontrivial=True, sample={"impl": impl, "N": N, "dt": dt, "rms_mode": case["rms_mode"], "rms": float(n.rms)})
    nf = len(n.freqs)
    sample = {"impl": impl, "N": N, "dt": dt, "band_over_nyquist": case["band"], "uniqueness": case["uq"], "amplitudes": case["amp"], "n_freqs": nf}
    vals = np.array(n.values)
    v.check(vals.shape == (N,) and bool(np.all(np.isfinite(vals))), "one finite value per sample", shape=list(vals.shape))
    v.check(str(n.value_type).endswith("voltage"), "noise is a voltage", value_type=str(n.value_type))
    if case["rms_mode"] == "TR":
        want = np.sqrt(scipy.constants.k * 300.0 * 50.0 * (band[1] - band[0]))
        v.close("rms == sqrt(k_B T R bandwidth)", abs(n.rms - want) / want, 1e-12, rms=float(n.rms), want=float(want))
    if nf == 0:
        v.check(not np.any(vals), "no frequency inside the band -> all-zero waveform", maxabs=float(np.max(np.abs(vals))))
        return v.result(decided=True, nontrivial=False, sample=sample)
    tolf = 1e-9 * fny
    v.check(bool(n.freqs.min() >= band[0] - tolf and n.freqs.max() <= band[1] + tolf), "published frequencies lie inside the requested band",
            fmin=float(n.freqs.min()), fmax=float(n.freqs.max()), band=list(band))
    v.check(len(n.amps) == nf and len(n.phases) == nf, "one amplitude and one phase per frequency")
    if 0 in n.freqs:
        v.check(float(n.amps[list(n.freqs).index(0)]) == 0.0, "zero-frequency amplitude is forced to zero")
    n_all = N * case["uq"]
    nyq_in = impl == "fft" and n_all % 2 == 0 and abs(n.freqs.max() - fny) < 1e-6 * fny
    scale = float(n.rms) * np.sqrt(2 / nf) * max(float(np.sum(np.abs(n.amps))), 1e-300)
    # ---- the waveform is the published cosine sum: own grid, a window far away on the grid, and off-grid times
    windows = {"own grid": t}
    k_shift = int(rng.integers(-3 * n_all, 3 * n_all))
    windows["shifted window on the sample grid"] = t[0] + (np.arange(int(rng.integers(2, 2 * N))) + k_shift) * dts
    windows["off-grid window"] = t[0] + rng.uniform(-1, 1) * N * dts + np.arange(int(rng.integers(2, N))) * dts * float(rng.uniform(0.3, 1.7))
    windows["same start and sample count, coarser spacing"] = t[0] + np.arange(N) * dts * float(rng.choice([2, 3]))
    windows["same start and sample count, finer spacing"] = t[0] + np.arange(N) * dts * 0.5
    # far from the start of the stored period, between the samples: position in steps ~ 1e3 ... 3e5, fraction of a step 0.001 ... 0.9
    windows["late window displaced by a fraction of a step"] = (t[0] + (int(10 ** rng.uniform(3, 5.5)) * int(rng.choice([-1, 1])) + float(10 ** rng.uniform(-3, -0.05))
                                                                     + np.arange(int(rng.integers(2, N + 2)))) * dts)
    windows["irregular times"] = np.sort(t[0] + rng.uniform(-0.5, 1.5, size=int(rng.integers(3, N + 3))) * N * dts)
    windows["grid re-bound on the used object (same length, a few samples later)"] = t + int(rng.integers(1, 8)) * dts
    windows["grid re-bound on the used object (same start and length, another spacing)"] = t[0] + np.arange(N) * dts * float(rng.choice([0.5, 2.0, 1.3, 0.77]))
    windows["grid re-bound by resample() on the used object"] = np.linspace(t[0], t[-1], int(rng.integers(max(3, N // 2), 2 * N)))
    for name, tq in windows.items():
        if name.startswith("grid re-bound by resample"):
            n.resample(len(tq))
            v.check(np.allclose(n.times, tq, rtol=0, atol=1e-9 * dts), "resample() spans the same window with the requested number of samples")
            tq = np.array(n.times, float)
            got = np.array(n.values)
            n.times = t
            back = np.array(n.values)
            v.close("binding the original grid again reproduces the original values", float(np.max(np.abs(back - vals))) / scale if back.shape == vals.shape else float("inf"), 1e-12)
        elif name.startswith("grid re-bound"):
            # the object has been read; binding another grid to it must make it answer for that grid, and binding the old one again for the old one
            n.times = tq
            got = np.array(n.values)
            n.times = t
            back = np.array(n.values)
            v.close("binding the original grid again reproduces the original values", float(np.max(np.abs(back - vals))) / scale if back.shape == vals.shape else float("inf"), 1e-12)
        else:
            got = vals if name == "own grid" else np.array(n.with_times(tq).values)
        cond = 2 * np.pi * float(np.max(n.freqs)) * float(np.max(np.abs(tq))) * 4e-16     # phase conditioning at large |t|
        if impl == "fft":
            # the stored step times[1]-times[0] carries a relative error eps*|t|/dt; after K samples the interpolation
            # position is off by K times that (in samples), and neighbouring samples differ by up to 2*scale
            K = float(np.max(np.abs((tq - t[0]) / dts))) + n_all
            cond += 4e-16 * float(np.max(np.abs(t))) / dts * K
        if impl == "fft":
            model = fft_model(n, tq, t[0], dts, n_all)
            if nyq_in:
                # known finding KF-C17-nyquist-half-weight: inside it the waveform must still be the cosine sum with
                # the Nyquist component at half weight, so that any *other* deviation is still reported
                half = type("Basis", (), {})()
                half.freqs, half.phases, half.rms = n.freqs, n.phases, n.rms
                half.amps = np.array(n.amps, float)
                half.amps[-1] *= 0.5
                m2 = fft_model(half, tq, t[0], dts, n_all)
                v.close("waveform == cosine sum with the Nyquist component at half weight (%s)" % name, float(np.max(np.abs(got - m2))) / scale,
                        1e-9 + cond * 10, impl=impl, N=N, uniqueness=case["uq"])          # same conditioning as the clause below
        else:
            model = full_model(n, tq)
        v.close("waveform == published cosine sum (%s)" % name, float(np.max(np.abs(got - model))) / scale, 1e-9 + cond * 10,
                impl=impl, nyquist_in_band=bool(nyq_in), N=N, uniqueness=case["uq"], window=name)
    # ---- re-gridding reproduces the values at shared sample times
    a_, b_ = sorted(rng.integers(0, N, size=2))
    if b_ - a_ >= 2:
        w = n.with_times(t[a_:b_])
        v.close("re-gridding onto a sub-window reproduces the values at shared times", float(np.max(np.abs(np.array(w.values) - vals[a_:b_]))) / scale, 1e-9, window=[int(a_), int(b_)])
    sup = t[0] + np.arange(-int(rng.integers(1, N)), N + int(rng.integers(1, N))) * dts
    w2 = np.array(n.with_times(sup).values)
    shared = np.isin(sup, t)
    if shared.sum() == N:
        v.close("re-gridding onto a super-window reproduces the values at shared times", float(np.max(np.abs(w2[shared] - vals))) / scale, 1e-9)
    # ---- unit amplitudes: requested RMS over a full period, and no power outside the band
    if impl == "fft" and case["amp"] == "constant" and 0 not in n.freqs and not nyq_in:
        full = np.array(n.with_times(t[0] + np.arange(n_all) * dts).values)
        rms = float(np.sqrt(np.mean(full ** 2)))
        v.close("unit amplitudes give the requested RMS over a full period", abs(rms - n.rms) / n.rms,
                1e-9 + 40e-16 * float(np.max(np.abs(t))) / dts * n_all * np.sqrt(nf), rms=rms, requested=float(n.rms))
    if impl == "fft" and not nyq_in:
        full = np.array(n.with_times(t[0] + np.arange(n_all) * dts).values)
        spec = np.abs(np.fft.rfft(full)) ** 2
        fr = np.fft.rfftfreq(n_all, dts)
        outp = float(spec[(fr < band[0] - tolf) | (fr > band[1] + tolf)].sum() / max(spec.sum(), 1e-300))
        v.close("no power outside the band (DFT of one full period)", outp, 1e-16)   # round-off of the interpolation: 1e-20 seen; a leak of one bin is > 1e-6
    # ---- same basis => identical waveform; independent objects differ
    n2, _, _ = build(case, t, sg)
    if nf >= 2 and case["amp"] != "constant" or nf >= 2:
        v.check(not np.allclose(n2.values, vals, rtol=0, atol=1e-9 * scale), "independent noise objects differ")
    n3, _, _ = build(case, t, sg)
    n3.amps = n.amps.copy()
    n3.phases = n.phases.copy()
    v.close("two objects with the same basis produce identical waveforms", float(np.max(np.abs(np.array(n3.values) - vals))) / scale, 1e-12)
    sample.update({"rms": float(n.rms), "nyquist_in_band": bool(nyq_in)})
    return v.result(decided=True, nontrivial=True, sample=sample)


def kf_nyquist_half_weight(case, viol):
    """irfft gives the Nyquist bin half the weight of the cosine formula."""
    d = viol["detail"]
    return viol["clause"].startswith("waveform == published cosine sum") and d.get("impl") == "fft" and d.get("nyquist_in_band") is True


def fx_period_one_sample_short(case, viol):
    return case["impl"] == "fft" and viol["clause"].startswith(("waveform == published cosine sum (shifted", "waveform == published cosine sum (off-grid"))
