"""C15 — Earth density equals the reference profile, slant depth equals its line integral.

Monitor: recorded density()/slant_depth() calls; oracle: independently typed PREM / core-mantle-crust tables
and scipy quad split at every shell crossing; tolerance = derived composite-trapezoid error bound for the step.
"""
import numpy as np
from vt.util import V, case_rng, rng_for
from vt.oracles import prem

PROPERTY = "C15"
TITLE = "Earth density and slant depth"
TECHNIQUE = ('runtime monitoring: density and slant_depth executions decided by independently typed PREM/CMC tables and an adaptive quadrature of the chord integral with a per-case discretisation bound; metamorphic relations (azimuth, direction length, step, dip)')
NEEDS_ICONTRACT = True
_STATE = {"evals": 0}


class PostBroken(AssertionError):
    pass


def column_ok(result):
    """Post-condition on the real slant_depth: a finite, non-negative column density."""
    _STATE["evals"] += 1
    r = np.asarray(result, float)
    return bool(np.all(np.isfinite(r)) and np.all(r >= 0))


def density_ok(r, result):
    _STATE["evals"] += 1
    d = np.asarray(result, float)
    return bool(d.shape == np.shape(r) and np.all(np.isfinite(d)) and np.all(d >= 0) and np.all(d <= 14.0))


def setup():
    import icontract
    import pyrex.earth_model as em
    if not getattr(em.PREM.slant_depth, "_vt_wrapped", False):
        w = icontract.ensure(column_ok, error=PostBroken)(em.PREM.slant_depth)
        w._vt_wrapped = True
        em.PREM.slant_depth = w
        w2 = icontract.ensure(density_ok, error=PostBroken)(em.PREM.density)
        w2._vt_wrapped = True
        em.PREM.density = w2


ANCHORS = ["pyrex.earth_model:PREM.density", "pyrex.earth_model:PREM.slant_depth"]
RULE = ("one case = one chord (model PREM or CoreMantleCrust, endpoint depth 0..3 km or above the surface, any x,y "
        "up to 1e6 m, direction class random/near-tangential/vertical-down/vertical-up/skimming, non-unit direction "
        "length, step from {2000,500,125,31}) + a density probe grid (shell boundaries +-1 ulp, 0, negative, >=R); "
        "non-trivial = the chord enters the Earth (L>0) and the oracle integral was computed; distinct = hash of the case")
ASSUMPTIONS = ["scipy.integrate.quad (epsrel 1e-10, split at shell crossings) of the typed-in tables is the reference",
               "discretisation error bound: 1.5*100*[h*(sum of crossed density jumps + endpoint density) + 1.5 h^2 L 60/R^2/12]"]
BUDGET = {"quick": 300, "thorough": 3600}


def gen_cases(tier, seed):
    rng = rng_for(PROPERTY, seed)
    n = 600 if tier == "quick" else 20000
    cases = []
    for i in range(n):
        model = ["PREM", "CoreMantleCrustModel"][i % 2]
        cls = ["random", "near-tangential", "vertical-down", "vertical-up", "skimming", "ladder", "dip-pair", "shallow-overburden"][(i // 2) % 8]
        far = rng.random() < 0.2
        xy = rng.uniform(-1e6, 1e6, size=2) if far else rng.uniform(-1e4, 1e4, size=2)
        z = -rng.uniform(0, 3000) if rng.random() < 0.9 else rng.uniform(0, 50)
        if rng.random() < 0.1:
            z = 0.0
        if cls == "random" or cls == "ladder":
            ct = rng.uniform(-1, 1)
        elif cls == "near-tangential":
            ct = rng.uniform(-0.05, 0.05) if rng.random() < 0.7 else float(rng.choice([-1, 1])) * 10 ** rng.uniform(-7, -3)
        elif cls == "vertical-down":
            ct = -1.0
        elif cls == "vertical-up":
            ct = 1.0
        elif cls == "skimming":
            ct = -10 ** rng.uniform(-4, -1.5)
        elif cls == "shallow-overburden":
            # a chord from a shallow end point (centimetres ... 100 m deep, i.e. within 2e-5 of the Earth's radius from the
            # surface) up to the surface: only the overburden is crossed, and it is integrated with a step that resolves it
            z = -float(10 ** rng.uniform(-2, 2))
            xy = rng.uniform(-3e3, 3e3, size=2)
            ct = float(10 ** rng.uniform(-2.5, 0))
        else:
            ct = -rng.uniform(0.02, 0.95)
        ph = rng.uniform(0, 2 * np.pi)
        cases.append({"cls": cls, "model": model, "endpoint": [float(xy[0]), float(xy[1]), float(z)], "ct": float(ct), "phi": float(ph),
                      "scale": float(10 ** rng.uniform(-2, 2)) if rng.random() < 0.7 else float(10 ** rng.uniform(-14, 12)), "step": float(rng.choice([2000, 500, 125, 31])) if cls != "shallow-overburden" else float(rng.choice([31, 8, 2, 0.5])),
                      "dip_delta_deg": float(rng.uniform(0.5, 20))})
    cases.append({"cls": "repo-suite", "files": ["tests/test_earth_model.py", "tests/test_generation.py"]})      # the repository's own tests under the contract
    return cases


def _bound(shells, R, ep, L, jumps, step, ex):
    n = int(L / step) + (1 if L % step else 0)
    if n <= 1:
        return ex * (1 + 1e-9) + 1e-9          # a single sample: the code returns 0, inside "the error of that step"
    h = L / (n - 1)
    rho0 = prem.density(float(np.linalg.norm([ep[0], ep[1], ep[2] + R])), shells, R)
    return 100 * (h * (sum(jumps) + rho0) + h * h * L * 60 / R**2 / 12 * 1.5) * 1.5 + 1e-9 * ex


def _dir(ct, ph):
    st = np.sqrt(max(1 - ct * ct, 0.0))
    return np.array([st * np.cos(ph), st * np.sin(ph), ct])


def run_case(case):
    if case["cls"] == "repo-suite":
        from vt import suite
        v_ = V()
        rep = suite.run("c15", case["files"])
        evals = sum(sum(x for x in d.values() if isinstance(x, int)) for d in rep.get("contract_evaluations", {}).values())
        v_.events += evals
        for f_ in rep.get("contract_failures", []):
            v_.check(False, "contract holds while the repository's own tests run", test=f_["test"], message=f_["message"])
        sample_ = {"workload": "repository test files under the contract", "files": rep.get("files"), "tests_collected": rep.get("collected"), "contract_evaluations": evals, "pytest": rep.get("tail")}
        if rep.get("returncode") != 0 and not rep.get("contract_failures"):
            return v_.result(decided=False, nontrivial=False, sample=sample_, skip="repository tests did not pass under the plugin")
        return v_.result(decided=True, nontrivial=evals >= 50, sample=sample_)
    try:
        return _run_case(case)
    except PostBroken as e:
        v_ = V()
        v_.check(False, "contract: density and column density are finite and non-negative", contract=str(e)[:300], model=case.get("model"))
        return v_.result(decided=True, nontrivial=True, sample={"model": case.get("model")})


def _run_case(case):
    import pyrex.earth_model as em
    v = V()
    rng = case_rng(case)
    earth = getattr(em, case["model"])()
    shells, R = prem.MODELS[case["model"]]
    # ---- density: reference value at every radius, scalar == array, zero outside
    edges = [s[1] for s in shells]
    rs = np.concatenate((rng.uniform(0, 1.1 * R, size=6), [np.nextafter(e, 0) for e in edges], edges,
                         [np.nextafter(e, 1e9) for e in edges], [0.0, -5.0, -1e7, R + 1, 2 * R]))
    arr = np.asarray(earth.density(rs), float)
    lst = np.asarray(earth.density(list(rs)), float)
    v.check(arr.shape == rs.shape and np.array_equal(arr, lst), "density(array) == density(list), shape kept", shape=list(arr.shape))
    for r, a_ in zip(rs, arr):
        ref = prem.density(float(r), shells, R)
        sc = earth.density(float(r))
        v.check(np.ndim(sc) == 0, "density(scalar) is scalar", ndim=int(np.ndim(sc)))
        v.close("density == reference table", max(abs(a_ - ref), abs(float(sc) - ref)), 1e-12, r=float(r), array=float(a_), scalar=float(sc), ref=ref)
    # ---- integer-typed radii (python ints, integer arrays, lists of ints) denote the same radii
    ri = np.array([int(x) for x in rng.uniform(0, 1.05 * R, size=6)] + [int(e) for e in edges[:-1]] + [0, int(R) + 5], dtype=np.int64)
    want = np.array([prem.density(float(x), shells, R) for x in ri])
    for name, got in (("integer array", np.asarray(earth.density(ri), float)), ("list of ints", np.asarray(earth.density([int(x) for x in ri]), float))):
        v.close("density of integer-typed radii == density of the same radii as floats", float(np.max(np.abs(got - want))), 1e-12, input=name, radii=ri[:4].tolist(), got=got[:4].tolist(), want=want[:4].tolist())
    v.close("density of integer-typed radii == density of the same radii as floats", abs(float(earth.density(int(ri[0]))) - want[0]), 1e-12, input="python int", radius=int(ri[0]))
    # ---- slant depth
    ep = np.array(case["endpoint"])
    d = _dir(case["ct"], case["phi"])
    step = case["step"]
    ex, L, jumps = prem.chord(shells, R, ep, d)
    other = [m for m in ("PREM", "CoreMantleCrustModel") if m != case["model"]][0]
    if rng.random() < 0.6:
        # the other Earth model asked first for the very same chord (same arguments, same process) must leave no trace
        getattr(em, other)().slant_depth(ep, d * case["scale"], step=step)
    val = float(earth.slant_depth(ep, d * case["scale"], step=step))
    sample = {"model": case["model"], "endpoint": case["endpoint"], "direction": d.tolist(), "step": step, "chord_m": L,
              "slant_depth": val, "oracle": ex}
    if L <= 0:
        v.check(val == 0, "zero for chords that do not enter the Earth", value=val)
        return v.result(decided=True, nontrivial=False, sample=sample)
    bound = _bound(shells, R, ep, L, jumps, step, ex)
    v.close("slant depth == chord integral within the step's discretisation bound", abs(val - ex), bound, value=val, oracle=ex, L=L, step=step)
    sample["bound"] = bound
    n = int(L / step) + (1 if L % step else 0)
    h = L / (n - 1) if n > 1 else L
    rho_surf = prem.density(R * (1 - 1e-9), shells, R)
    flip = 100 * h * rho_surf * 0.5 * 1.01 + 1e-9 * max(abs(val), 1.0)    # the last sample sits exactly on r = R
    # length of the direction vector does not matter
    v2 = float(earth.slant_depth(tuple(ep), list(d * case["scale"] * 7.3), step=step))
    v.close("independent of the direction vector's length", abs(v2 - val), flip, a=val, b=v2)
    # azimuth: rotate endpoint and direction together about the vertical axis through the Earth's centre
    ang = rng.uniform(0, 2 * np.pi)
    c, s = np.cos(ang), np.sin(ang)
    Rz = np.array([[c, -s, 0], [s, c, 0], [0, 0, 1]])
    v3 = float(earth.slant_depth(Rz @ ep, Rz @ d, step=step))
    v.close("independent of azimuth", abs(v3 - val), flip, a=val, b=v3, angle=float(ang))
    if case["cls"] == "ladder":
        # converging: every rung of the step ladder is inside its own bound
        errs = []
        for st in (2000.0, 500.0, 125.0, 31.0):
            vv = float(earth.slant_depth(ep, d, step=st))
            b = _bound(shells, R, ep, L, jumps, st, ex)
            errs.append(abs(vv - ex))
            v.close("converges along the step ladder (each rung within its bound)", abs(vv - ex), b, step=st, value=vv, oracle=ex)
        sample["ladder_errors"] = errs
    if case["cls"] == "dip-pair":
        # grows as the chord dips deeper (same endpoint, same azimuth, steeper direction), decided at the finest step
        dip1 = np.arcsin(-case["ct"])
        dip2 = min(dip1 + np.radians(case["dip_delta_deg"]), np.pi / 2)
        d2 = _dir(-np.sin(dip2), case["phi"])
        ex2, L2, j2 = prem.chord(shells, R, ep, d2)
        a1 = float(earth.slant_depth(ep, d, step=31.0))
        a2 = float(earth.slant_depth(ep, d2, step=31.0))
        b1 = _bound(shells, R, ep, L, jumps, 31.0, ex)
        b2 = _bound(shells, R, ep, L2, j2, 31.0, ex2)
        if ex2 - ex > 2 * (b1 + b2):
            v.check(a2 > a1, "grows as the chord dips deeper", dip1=float(np.degrees(dip1)), dip2=float(np.degrees(dip2)), shallow=a1, deep=a2)
        else:
            v.check(a2 >= a1 - (b1 + b2), "grows as the chord dips deeper", dip1=float(np.degrees(dip1)), dip2=float(np.degrees(dip2)), shallow=a1, deep=a2)
    return v.result(decided=True, nontrivial=True, sample=sample)
