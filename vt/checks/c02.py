"""C02 — ray solution sets respect reciprocity and the symmetries of stratified ice.

Monitor: tracer.exists / .solutions and each path's tof, path_length, attenuation(f), emitted/received directions are
recorded for a geometry and for its swapped, horizontally translated and azimuthally rotated copies.  Oracle: the
transformed execution of the same code (metamorphic relations), for every shipped tracer family.
"""
import numpy as np
from vt.util import V, EPS, case_rng, rng_for
from vt import gen
from vt.checks.c01 import cancellation_bound

PROPERTY = "C02"
TITLE = "Reciprocity and stratified-medium symmetries"
TECHNIQUE = ('runtime monitoring, metamorphic oracle: the same endpoint pair executed as given, swapped, translated and rotated (float and integer representations) and the recorded solution sets compared; mechanism-keyed known-finding classifiers')
ANCHORS = ["pyrex.ray_tracing:BasicRayTracer.solutions", "pyrex.ray_tracing:BasicRayTracer.exists", "pyrex.ray_tracing:BasicRayTracer._get_launch_angle",
           "pyrex.ray_tracing:BasicRayTracePath.emitted_direction", "pyrex.ray_tracing:BasicRayTracePath.received_direction",
           "pyrex.ray_tracing:UniformRayTracer.solutions", "pyrex.ray_tracing:UniformRayTracePath._points",
           "pyrex.custom.layered_ice.ray_tracing:LayeredRayTracer.solutions"]
RULE = ("one case = one endpoint pair (C01's geometry classes, any x,y offset) for one tracer family (Specialized, Basic, "
        "Uniform with max_reflections 0..3 over UniformIce with random range and boundary indices incl. None, Layered "
        "over 2-4 layer stacks of uniform or exponential layers), executed as given, swapped, translated by up to +-10 km "
        "and rotated about the vertical by a random angle; non-trivial = at least one solution whose four executions were "
        "compared; distinct = hash of the case")
ASSUMPTIONS = ["uniform/layered paths integrate the attenuation with a one-sided Riemann sum, so forward and reverse exponents may differ by the sum over "
               "segments of |1/L_att(z_start) - 1/L_att(z_end)| * step (the rule's own end term); everything else is compared to 1e-7",
               "the symmetric-trapezoid attenuation of gradient-index paths is compared to 1e-6"]
BUDGET = {"quick": 600, "thorough": 5400}
CASE_TIMEOUT = {"quick": 180, "thorough": 300}
FREQS = np.array([0.0, 5e7, 3e8, 1e9])


def gen_cases(tier, seed):
    rng = rng_for(PROPERTY, seed)
    n = 320 if tier == "quick" else 10000
    fams = ["specialized", "specialized", "basic", "uniform", "uniform", "layered-uniform", "layered-exp", "specialized"]
    out = []
    for i in range(n):
        fam = fams[i % len(fams)]
        if fam in ("specialized", "basic"):
            ice = gen.ice_family_spec(rng)
            zmin = -2850.0 if ice["kind"] in ("antarctic", "arasim") and "range" not in ice else (-3000.0 if ice["kind"] == "greenland" else ice["range"][0])
            extra = {}
        elif fam == "uniform":
            zmin = -float(rng.uniform(100, 3000))
            ice = {"kind": "uniform", "n": float(rng.uniform(1.2, 1.9)), "range": [zmin, 0.0], "above": [1.0, None][int(rng.integers(0, 2))], "below": [None, 1.5][int(rng.integers(0, 2))]}
            extra = {"max_reflections": int(rng.integers(0, 4))}
        else:
            nl = int(rng.integers(2, 5))
            zmin = -1000.0
            edges = [0.0] + sorted((-rng.uniform(50, 900, size=nl - 1)).tolist(), reverse=True) + [zmin]
            layers = []
            for j in range(nl):
                r = [edges[j + 1], edges[j]]
                if fam == "layered-uniform" or rng.random() < 0.3:
                    layers.append({"kind": "uniform", "n": float(rng.uniform(1.3, 1.8)), "range": r, "above": None, "below": None})
                else:
                    layers.append({"kind": "antarctic", "n0": float(rng.uniform(1.6, 1.85)), "k": float(rng.uniform(0.05, 0.4)), "a": float(rng.uniform(0.005, 0.03)), "range": r, "above": None, "below": None})
            ice = {"kind": "layered", "layers": layers, "above": 1.0, "below": None}
            extra = {}
        z0, z1 = rng.uniform(zmin, -0.01), rng.uniform(zmin, -0.01)
        rho = 10 ** rng.uniform(-1, 3.6)
        m = int(rng.integers(0, 6))
        if m == 5:
            rho = 0.0           # exactly vertically aligned endpoints
            if abs(z1 - z0) < 5:
                z1 = max(zmin, z0 - 50.0) if z0 - 50.0 > zmin else z0 + 50.0
        if m == 1:
            rho = rng.uniform(0.01, 30)
        elif m == 2:
            z0, z1 = rng.uniform(max(zmin, -200), -0.01), rng.uniform(max(zmin, -200), -0.01)
        r_ = rng.random()
        if r_ < 0.04:
            z1 = float(rng.choice([5.0, 0.5, zmin - 50.0]))       # one endpoint outside the ice: whatever is reported, exists <=> non-empty, in all executions
        elif r_ < 0.10 and fam in ("uniform", "layered-uniform") and rho > 0:
            z1 = z0                                               # exactly equal depths: a horizontal straight path
        elif r_ < 0.22 and fam.startswith("layered"):
            # an endpoint exactly on an inner boundary between two layers
            zb_ = float(edges[1 + int(rng.integers(0, len(edges) - 2))])
            if rng.random() < 0.5:
                z0 = zb_
            else:
                z1 = zb_
        grazing = False
        if fam == "layered-uniform" and rng.random() < 0.25 and all(l_["kind"] == "uniform" for l_ in layers):
            # the transmitted ray arrives 0.3 ... 6 degrees from the horizontal in a layer of lower index than the source's: the pair
            # sits next to the total-reflection edge of r(theta), where a launch-angle scan has the least room
            i_up = int(rng.integers(0, nl - 1))
            j_dn = int(rng.integers(i_up + 1, nl))
            if layers[i_up]["n"] < layers[j_dn]["n"] and edges[i_up] - edges[i_up + 1] > 1.5 and edges[j_dn] - edges[j_dn + 1] > 1.5:
                pinv = layers[i_up]["n"] * np.cos(np.radians(float(rng.uniform(0.3, 6.0))))
                if all(layers[l_]["n"] > pinv for l_ in range(i_up, j_dn + 1)):
                    z1 = float(rng.uniform(edges[i_up + 1] + 0.5, edges[i_up] - 0.5))
                    z0 = float(rng.uniform(edges[j_dn + 1] + 0.5, edges[j_dn] - 0.5))
                    rho = 0.0
                    for l_ in range(i_up, j_dn + 1):
                        top_, bot_ = min(edges[l_], z1) if l_ == i_up else edges[l_], max(edges[l_ + 1], z0) if l_ == j_dn else edges[l_ + 1]
                        s_ = pinv / layers[l_]["n"]
                        rho += (top_ - bot_) * s_ / np.sqrt(1 - s_ * s_)
                    grazing = rho <= 1e4        # in thick layers a near-horizontal arrival can be 80 km away: outside the geometries of this property
                    if not grazing:
                        rho = 10 ** rng.uniform(-1, 3.6)
        ph = rng.uniform(0, 2 * np.pi)
        a = [float(rng.uniform(-2e3, 2e3)), float(rng.uniform(-2e3, 2e3)), float(z0)]
        b = [a[0] + float(rho * np.cos(ph)), a[1] + float(rho * np.sin(ph)), float(z1)]
        ints = False
        cls_ = fam + (":grazing-arrival" if grazing else "")
        if not grazing and rng.random() < 0.06 and -1.0 > z0 > zmin + 1.0:
            # nearly coincident endpoints (0.1 micrometre ... 5 mm apart, any orientation): below 1e-5 of the coordinates themselves
            u_ = rng.normal(size=3)
            u_ /= np.linalg.norm(u_)
            sep_ = float(10 ** rng.uniform(-7, -2.3))
            b = [a[0] + sep_ * u_[0], a[1] + sep_ * u_[1], a[2] + sep_ * u_[2]]
            cls_ = fam + ":nearly-coincident"
        elif fam in ("uniform", "layered-uniform") and rng.random() < 0.3 and zmin < -20:
            # endpoints given as whole numbers in Python ints (lists of int): same points, another representation
            ints = True
            a = [int(round(a[0])), int(round(a[1])), int(min(-1, max(np.ceil(zmin) + 1, round(a[2]))))]
            b = [int(round(b[0])), int(round(b[1])), int(min(-1, max(np.ceil(zmin) + 1, round(b[2]))))]
            if a == b:
                b[0] += 7
        out.append(dict({"cls": cls_, "family": fam, "ice": ice, "from": a, "to": b, "shift": [float(rng.uniform(-1e4, 1e4)), float(rng.uniform(-1e4, 1e4))],
                         "angle": float(rng.uniform(0, 2 * np.pi)), "int_endpoints": ints}, **extra))
    return out


def make_tracer_factory(case, ice):
    import pyrex.ray_tracing as rt
    fam = case["family"]
    if fam == "specialized":
        return lambda x, y: rt.SpecializedRayTracer(x, y, ice)
    if fam == "basic":
        return lambda x, y: rt.BasicRayTracer(x, y, ice, dz=1.0)
    if fam == "uniform":
        UT = type("UT", (rt.UniformRayTracer,), {"max_reflections": case["max_reflections"]})
        return lambda x, y: UT(x, y, ice)
    from pyrex.custom.layered_ice import LayeredRayTracer
    return lambda x, y: LayeredRayTracer(x, y, ice)


def turn_depth_error(ice, *zs):
    """Round-trip error of the real inverse profile, |depth_with_index(index(z)) - z|, at the given depths (m)."""
    try:
        return float(max(abs(float(ice.depth_with_index(ice.index(float(z)))) - float(z)) for z in zs))
    except Exception:       # noqa: BLE001
        return float("nan")


def on_beta_window(*paths):
    """True when a gradient-index sub-path of a multi-leg layered solution sits inside its declared beta_tolerance window
    (|beta| <= 1.05 beta_tolerance), where the sub-layer is treated as exactly vertical."""
    for p in paths:
        subs = getattr(p, "paths", None)
        if not subs or len(subs) < 2:
            continue
        for sp in subs:
            if hasattr(sp, "beta") and hasattr(sp, "beta_tolerance"):
                try:
                    if abs(float(sp.beta)) <= 1.05 * float(sp.beta_tolerance):
                        return True
                except Exception:       # noqa: BLE001
                    pass
    return False


def describe(tracer):
    out = {"exists": None, "paths": None, "error": None, "observables": {}}
    try:
        sols = list(tracer.solutions)
        out["exists"] = bool(tracer.exists)
        out["paths"] = sols
    except Exception as e:       # noqa: BLE001 -- "reports neither" is itself the observation
        out["error"] = type(e).__name__ + ": " + str(e)[:120]
        if type(tracer).__name__ == "BasicRayTracer":
            from vt.checks.c01 import bracket_end_observables
            out["observables"] = bracket_end_observables(tracer, out["error"])
    return out


def segments_of(p):
    """Straight segments of a uniform path / of the uniform sub-paths of a layered path (gradient sub-paths use a symmetric rule)."""
    subs = p.paths if hasattr(p, "paths") else [p]
    segs = []
    for sp in subs:
        if hasattr(sp, "_points"):
            pts = [np.asarray(q, float) for q in sp._points]
            segs.extend(zip(pts[:-1], pts[1:]))
    return segs


def run_case(case):
    v = V()
    ice = gen.make_ice(case["ice"])
    make = make_tracer_factory(case, ice)
    a, b = np.array(case["from"], float), np.array(case["to"], float)
    sh = np.array(case["shift"] + [0.0])
    ang = case["angle"]
    R = np.array([[np.cos(ang), -np.sin(ang), 0], [np.sin(ang), np.cos(ang), 0], [0, 0, 1]])
    fam = case["family"]
    gradient = fam in ("specialized", "basic")
    geo = {"family": fam, "from": a.tolist(), "to": b.tolist(), "rho": float(np.hypot(*(b - a)[:2]))}
    if gradient:
        n0, k_, a_ = float(ice.n0), float(ice.k), float(ice.a)
        nf = lambda z: n0 - k_ * np.exp(a_ * z)
        geo.update(ice=[n0, k_, a_], sat0=bool(n0 - nf(a[2]) < 32 * EPS * n0), sat1=bool(n0 - nf(b[2]) < 32 * EPS * n0))
        if fam == "basic":
            # observables of two mechanisms of the numeric tracer, measured on the real ice model / tracer
            geo.update(dz=1.0, z_turn_proximity=float(getattr(make(a, b), "z_turn_proximity", float("nan"))), turn_depth_error=turn_depth_error(ice, a[2], b[2]))
    if case.get("int_endpoints"):
        # as given and swapped: the integer representation itself (list / tuple / int array); moved: floats
        rep = [list, tuple, lambda x: np.array(x, dtype=int)][case["idx"] % 3 if "idx" in case else 0]
        geo["endpoint_type"] = ["list of int", "tuple of int", "int ndarray"][case["idx"] % 3 if "idx" in case else 0]
        d1 = describe(make(rep(case["from"]), rep(case["to"])))
        d2 = describe(make(rep(case["to"]), rep(case["from"])))
    else:
        d1 = describe(make(a, b))
        if int(abs(a[0]) * 1e3) % 4 == 0:
            # the swapped execution on a tracer object that was used for the pair as given and then re-pointed by assignment
            used = make(a, b)
            try:
                [(q.path_length, q.emitted_direction) for q in used.solutions]
                used.exists
            except Exception:       # noqa: BLE001 -- reported by the execution "as given"
                pass
            used.from_point, used.to_point = b, a
            d2 = describe(used)
            geo["swapped_execution"] = "same tracer object re-pointed by assignment"
        else:
            d2 = describe(make(b, a))
    d3 = describe(make(R @ a + sh, R @ b + sh))
    for nm, d in (("as given", d1), ("swapped", d2), ("moved", d3)):
        v.check(d["error"] is None, "tracer reports solutions or none for in-range points (no exception)", execution=nm, error=d["error"], **dict(geo, **d.get("observables", {})))
    if d1["error"] or d2["error"] or d3["error"]:
        return v.result(decided=True, nontrivial=False, sample=geo)
    s1, s2, s3 = d1["paths"], d2["paths"], d3["paths"]
    for nm, d in (("as given", d1), ("swapped", d2), ("moved", d3)):
        v.check(d["exists"] == (len(d["paths"]) > 0), "exists <=> the solution list is non-empty", execution=nm, exists=d["exists"], n=len(d["paths"]), **geo)
        if gradient:
            v.check(len(d["paths"]) in (0, 2), "a gradient-index tracer reports no solution or two", execution=nm, n=len(d["paths"]), **geo)
    fine = None
    if fam.startswith("layered") and not (len(s1) == len(s2) == len(s3)):
        # mechanism observable for the known finding "fixed launch-angle scan": the same three executions with a 20 times finer
        # scan.  If the counts then agree (and no execution loses a solution), the coarse mismatch was a pair of roots inside one
        # scan interval; if they still differ, it is something else.
        try:
            from pyrex.custom.layered_ice import LayeredRayTracer
            FT = type("FineScan", (LayeredRayTracer,), {"_angle_checks": 20 * (LayeredRayTracer._angle_checks - 1) + 1})
            aa, bb = (rep(case["from"]), rep(case["to"])) if case.get("int_endpoints") else (a, b)
            fine = [len(FT(aa, bb, ice).solutions), len(FT(bb, aa, ice).solutions), len(FT(R @ a + sh, R @ b + sh, ice).solutions)]
        except Exception as e:       # noqa: BLE001
            fine = "fine scan failed: " + type(e).__name__
        # second observable: the receiver moved by +-0.1 micrometre along the line of sight.  A true solution set does not change;
        # a root lost because the root finder stepped on one of the isolated NaN values of r(theta) does.
        nudged = []
        try:
            from pyrex.custom.layered_ice import LayeredRayTracer
            u_ = np.array([b[0] - a[0], b[1] - a[1], 0.0])
            u_ = u_ / max(np.linalg.norm(u_), 1e-300) if np.any(u_) else np.array([1.0, 0.0, 0.0])
            for eps_ in (1e-7, -1e-7):
                b2 = b + eps_ * u_
                nudged.append([len(LayeredRayTracer(a, b2, ice).solutions), len(LayeredRayTracer(b2, a, ice).solutions), len(LayeredRayTracer(R @ a + sh, R @ b2 + sh, ice).solutions)])
        except Exception as e:       # noqa: BLE001
            nudged = "nudge failed: " + type(e).__name__
        geo["n_with_receiver_moved_by_0.1_micrometre"] = nudged
    # ---- mechanism observable (kf_layered_noise_arc_leg): a multi-leg layered solution whose end leg is an arc inside a gradient
    # layer that starts and ends at the same depth (endpoint on an inner boundary).  For a launch at elevation phi << 1 from the
    # horizontal the arc's horizontal extent is 2 n phi / |dn/dz| to first order (valid while its height n phi^2 / (2 |dn/dz|) is
    # small against the profile's scale 1/a).  A reported extent off by more than a factor two from that is not an arc of the
    # profile at all.  Such solutions are reported under their own clause and set aside, the remaining ones are compared strictly.
    def noise_arc_leg(p):
        legs_ = list(getattr(p, "paths", []))
        if len(legs_) < 2:
            return None
        for sp, dvec in ((legs_[0], p.emitted_direction), (legs_[-1], p.received_direction)):
            f_, t_ = np.asarray(sp.from_point, float), np.asarray(sp.to_point, float)
            li = getattr(sp, "ice", None)
            if hasattr(sp, "_points") or f_[2] != t_[2] or not all(hasattr(li, x_) for x_ in ("k", "a", "index")):
                continue
            phi = abs(float(np.asarray(dvec, float)[2]))
            n_ = float(li.index(float(f_[2])))
            dn_ = abs(float(li.k) * float(li.a) * float(np.exp(float(li.a) * float(f_[2]))))
            if phi > 1e-3 or dn_ <= 0 or float(li.a) * n_ * phi * phi / (2 * dn_) > 0.1:
                continue
            true_extent = 2 * n_ * phi / dn_
            reported = float(np.hypot(*(t_ - f_)[:2]))
            if not (0.5 * true_extent <= reported <= 2 * true_extent):
                return {"elevation_rad": phi, "reported_extent_m": reported, "first_order_extent_m": float(true_extent), "depth": float(f_[2]), "L": float(p.path_length)}
        return None

    if str(fam).startswith("layered"):
        es_ = [{i: o for i, o in ((i, noise_arc_leg(p)) for i, p in enumerate(ss_)) if o} for ss_ in (s1, s2, s3)]
        if any(es_):
            v.check(False, "the end leg of a layered solution is an arc of its layer's profile",
                    forward=list(es_[0].values()), swapped=list(es_[1].values()), moved=list(es_[2].values()), arc_extent_off_by_more_than_a_factor_two=True, **geo)
            s1 = [p for i, p in enumerate(s1) if i not in es_[0]]
            s2 = [p for i, p in enumerate(s2) if i not in es_[1]]
            s3 = [p for i, p in enumerate(s3) if i not in es_[2]]
            geo["noise_arc_solutions_set_aside"] = [len(e_) for e_ in es_]
    ok = v.check(len(s1) == len(s2) == len(s3), "swapping / moving the endpoints keeps the number of solutions", n=[len(s1), len(s2), len(s3)], n_with_20x_finer_angle_scan=fine, **geo)
    sample = dict(geo, n_solutions=len(s1))
    if not ok or not s1:
        return v.result(decided=True, nontrivial=False, sample=sample)

    def att(p):
        return np.asarray(p.attenuation(FREQS), float)

    def leg_spans(p):
        """Depth extents of the legs the numeric tracer integrates over (mechanism observable of kf_basic_leg_shorter_than_step)."""
        try:
            if getattr(p, "direct", True):
                return [abs(float(p.z1) - float(p.z0))]
            zt = float(p.z_turn) - float(p.z_turn_proximity)
            return [abs(zt - float(p.z0)), abs(zt - float(p.z1))]
        except Exception:       # noqa: BLE001
            return []

    def canc(p):
        if fam == "layered-exp":
            # the same cancellation inside every exponential sub-layer the path crosses
            tot = 0.0
            for sp in p.paths:
                li = sp.ice
                if not hasattr(li, "k"):
                    continue
                em_ = np.asarray(sp.emitted_direction, float)
                zs_, ze_ = float(sp.from_point[2]), float(sp.to_point[2])
                beta_ = float(li.index(zs_) * np.hypot(em_[0], em_[1]))
                tot += cancellation_bound(float(li.n0), float(li.k), float(li.a), beta_, min(zs_, ze_), float(getattr(sp, "uniformity_factor", 0.99999)))
            return tot
        if fam != "specialized":
            return 0.0
        em = np.asarray(p.emitted_direction, float)
        beta = float(nf(a[2]) * np.hypot(em[0], em[1]))
        return cancellation_bound(n0, k_, a_, beta, min(a[2], b[2]), float(getattr(p, "uniformity_factor", 0.99999)))
    # layered tracing through exponential sub-layers solves for the launch angle through the sub-layers' closed forms:
    # measured agreement 1.5e-6 (thorough, 1e4 cases); everything else agrees to 1e-9 and is held to 1e-7
    gtol = 1e-5 if fam == "layered-exp" else 1e-7
    # conditioning of the input itself: the separation of the endpoints is known to eps * |coordinates| only, and the moved copy
    # carries other coordinates (relevant for endpoints micrometres apart; 3e-13 for ordinary pairs)
    sep_in = float(np.linalg.norm(np.asarray(b, float) - np.asarray(a, float)))
    coord_in = float(max(np.max(np.abs(a)), np.max(np.abs(b)), np.max(np.abs(R @ np.asarray(a, float) + sh)), np.max(np.abs(R @ np.asarray(b, float) + sh))))
    cond_in = 16 * 2.220446049250313e-16 * coord_in / max(sep_in, 1e-300)
    gtol += cond_in

    def dir_tol(p):
        """Inside the declared beta_tolerance window a gradient-index path is treated as exactly vertical: the reported
        direction is then arbitrary within beta_tolerance / n."""
        if fam in ("uniform", "layered-uniform"):
            # the direction of a straight leg is taken from its end points, which are known to eps * |coordinates|: a leg of a few
            # nanometres (receiver a hair below a boundary) has a direction known to eps * |coordinates| / its length only
            legs_ = [float(sp.path_length) for sp in getattr(p, "paths", [])]
            # (junction points come from a launch angle solved to ~1e-12 rad, i.e. they are known to 1e-12 of the path length as well)
            return 1e-7 + cond_in + ((64 * 2.220446049250313e-16 * coord_in + 1e-12 * float(p.path_length)) / max(min(legs_), 1e-300) if legs_ else 0.0)
        em = np.asarray(p.emitted_direction, float)
        rd = np.asarray(p.received_direction, float)
        nsrc, nrec = float(ice.index(float(a[2]))), float(ice.index(float(b[2])))
        btol = 0.005
        for sp in (p.paths if hasattr(p, "paths") else [p]):
            btol = max(btol, float(getattr(sp, "beta_tolerance", 0.005)))
        beta_ = min(nsrc * np.hypot(em[0], em[1]), nrec * np.hypot(rd[0], rd[1]))
        n_min = min(nsrc, nrec)
        for lay_ in getattr(ice, "layers", [ice]):
            n_min = min(n_min, float(lay_.index(float(lay_.valid_range[1]))))
        base = (1e-5 if fam == "layered-exp" else 1e-7) + cond_in
        if fam == "layered-exp":
            # conditioning: the direction of a straight leg is taken from its end points, so the junction positions' own
            # agreement (measured <= 2e-6 of the path length) is divided by the length of the shortest leg
            legs = [float(sp.path_length) for sp in getattr(p, "paths", [])]
            if legs and min(legs) > 0:
                base += 2e-6 * float(p.path_length) / min(legs)
        return base + (3 * btol / n_min if beta_ <= 1.05 * btol else 0.0)    # both executions may sit anywhere in the window

    # ---- translation + rotation: same order of solutions
    for j, (p, w) in enumerate(zip(s1, s3)):
        L = float(p.path_length)
        det = dict(geo, solution=j, L=L, cancellation_bound_m=canc(p), beta_window=on_beta_window(p, w))
        if fam == "basic":
            det["leg_depth_spans"] = leg_spans(p)
        v.close("translated/rotated: equal path length", abs(p.path_length - w.path_length) / L, gtol, **det)
        v.close("translated/rotated: equal time of flight", abs(p.tof - w.tof) / p.tof, gtol, **det)
        v.close("translated/rotated: horizontal direction components move with the geometry, vertical ones unchanged",
                max(float(np.max(np.abs(R @ p.emitted_direction - w.emitted_direction))), float(np.max(np.abs(R @ p.received_direction - w.received_direction)))), dir_tol(p), **det)
        v.close("translated/rotated: equal attenuation", float(np.max(np.abs(att(p) - att(w)))), 1e-6, **det)
    # ---- reciprocity: match solutions by path length (the order of reflected families may differ under a swap)
    used = set()
    for j, p in enumerate(s1):
        cand = [(abs(q.path_length - p.path_length), i) for i, q in enumerate(s2) if i not in used]
        best_dl = min(cand)[0]
        # several solutions can have the same length (equal depths: up-first and down-first reflections): among those within
        # the length tolerance take the one whose directions fit best
        ties = [i for dl, i in cand if dl <= best_dl + 10 * gtol * max(float(p.path_length), 1e-9)]
        i = min(ties, key=lambda i_: float(np.max(np.abs(np.asarray(p.emitted_direction) + np.asarray(s2[i_].received_direction)))))
        used.add(i)
        q = s2[i]
        L = float(p.path_length)
        det = dict(geo, solution=j, L=L, cancellation_bound_m=canc(p), beta_window=on_beta_window(p, q))
        if fam == "basic":
            det["leg_depth_spans"] = leg_spans(p)
        v.close("swapped: equal path length", abs(p.path_length - q.path_length) / L, gtol, **det)
        v.close("swapped: equal time of flight", abs(p.tof - q.tof) / p.tof, gtol, **det)
        v.close("swapped: emitted/received directions exchanged and reversed",
                max(float(np.max(np.abs(np.asarray(p.emitted_direction) + np.asarray(q.received_direction)))), float(np.max(np.abs(np.asarray(p.received_direction) + np.asarray(q.emitted_direction))))), dir_tol(p), **det)
        ap, aq = att(p), att(q)
        if gradient:
            v.close("swapped: equal attenuation", float(np.max(np.abs(ap - aq))), 1e-6, **det)
        else:
            # one-sided Riemann sum: exponents differ by at most the rule's end term
            bound = np.zeros(len(FREQS))
            lay = ice.layers if hasattr(ice, "layers") else None
            for p1, p2 in segments_of(p):
                if p1[2] == p2[2]:
                    continue
                zmid = 0.5 * (p1[2] + p2[2])
                model = ice if lay is None else ice.layer_at_depth(float(zmid))
                g = lambda z: 1.0 / np.asarray(model.attenuation_length(float(z), FREQS[1:]), float)
                nst = int(abs(p2[2] - p1[2]) / 1) + 2
                bound[1:] += np.abs(g(p1[2]) - g(p2[2])) * np.linalg.norm(p2 - p1) / nst * 3
            with np.errstate(divide="ignore", invalid="ignore"):
                dlog = np.abs(np.log(np.maximum(ap, 1e-300)) - np.log(np.maximum(aq, 1e-300)))
            dlog = np.where((ap < 1e-290) | (aq < 1e-290), 0.0, dlog)
            grad_sub = hasattr(p, "paths") and any(not hasattr(sp, "_points") for sp in p.paths)
            v.close("swapped: equal attenuation (up to the end term of the one-sided sum)", float(np.max(dlog[1:] - bound[1:] * 1.000001)) + 1e-12,
                    # through gradient sub-layers the two executions agree in path length to gtol only (see above); the exponent
                    # -integral ds / L_att inherits exactly that relative difference
                    (1e-6 + gtol * float(np.max(np.abs(np.log(np.maximum(ap[1:], 1e-300)))))) if grad_sub else 2e-12, **det)
    sample["first_solution"] = {"L": float(s1[0].path_length), "tof": float(s1[0].tof), "attenuation": att(s1[0]).tolist()}
    return v.result(decided=True, nontrivial=True, sample=sample)


# ---- known findings shared with C01 (the same defects seen through the symmetry relations)
def kf_saturated(case, viol):
    d = viol["detail"]
    return bool(d.get("sat0") and d.get("sat1"))


def kf_horizontal(case, viol):
    d = viol["detail"]
    return d.get("family") in ("specialized", "basic") and "from" in d and abs(d["from"][2] - d["to"][2]) < 1e-2


def kf_basic_max_angle_nan(case, viol):
    from vt.checks.c01 import nan_confined_to_bracket_end
    d = viol["detail"]
    return (d.get("family") == "basic" and viol["clause"].startswith("tracer reports solutions or none") and "NaN" in str(d.get("error", ""))
            and not (d.get("sat0") and d.get("sat1")) and nan_confined_to_bracket_end(d))


def kf_basic_turning_depth_unresolved(case, viol):
    """Numeric tracer, deep endpoints: the real depth_with_index(index(z)) misses z by more than the distance
    (z_turn_proximity) at which the numeric integrals stop short of the turning point, so the limits of the second leg are
    inverted, the r-function is negative at the end of the root bracket and brentq raises."""
    d = viol["detail"]
    return (d.get("family") == "basic" and viol["clause"].startswith("tracer reports solutions or none") and ("different signs" in str(d.get("error", "")) or "NaN" in str(d.get("error", "")))
            and d.get("turn_depth_error", 0.0) > d.get("z_turn_proximity", float("inf")))


def kf_basic_leg_shorter_than_step(case, viol):
    """Numeric tracer: z_integral uses int(|dz_leg| / dz) trapezoid intervals, which is zero for a leg spanning less than one
    step in depth: path length, time of flight (and attenuation exponent) of such a solution are exactly 0."""
    d = viol["detail"]
    spans = d.get("leg_depth_spans") or [abs(d["from"][2] - d["to"][2])] if "from" in d else []
    return (d.get("family") == "basic" and bool(spans) and max(spans) < d.get("dz", 0.0) and d.get("L") == 0.0
            and viol["clause"].endswith(("equal path length", "equal time of flight", "equal attenuation")))


def kf_near_vertical_multileg_snell(case, viol):
    """see KF-C18-near-vertical-multileg-snell: a gradient sub-layer of a multi-leg layered solution sits on the
    beta_tolerance discontinuity in one of the two compared executions; the remaining legs absorb the horizontal mismatch."""
    d = viol["detail"]
    return d.get("family") == "layered-exp" and d.get("beta_window") is True and viol["clause"].startswith(("swapped: e", "translated/rotated: e", "translated/rotated: horizontal"))


def kf_cancellation(case, viol):
    """A 1e-13 change of rho (translation/rotation) is amplified by the cancellation in log_term_1."""
    d = viol["detail"]
    if d.get("family") not in ("specialized", "layered-exp") or "deviation" not in d or not viol["clause"].startswith(("translated/rotated", "swapped")):
        return False
    rel = d.get("cancellation_bound_m", 0.0) / max(d.get("L", 1.0), 1e-9)
    if rel > 1e-3:
        return True        # no digit of the closed-form integrals is left: lengths of different solutions can no longer be told apart
    return d["deviation"] <= d["tolerance"] + 2 * rel


def fx_uniform_reflection_points(case, viol):
    return viol["detail"].get("family") == "uniform" and viol["clause"].startswith("translated/rotated")


def kf_layered_noise_arc_leg(case, viol):
    """End leg of a layered solution at an endpoint on an inner boundary, launched 1e-7..1e-3 rad from the horizontal into a gradient
    layer: its closed-form horizontal extent is off by more than a factor two from the arc 2 n phi / |dn/dz| (measured per solution)."""
    return (viol["clause"] == "the end leg of a layered solution is an arc of its layer's profile"
            and viol["detail"].get("arc_extent_off_by_more_than_a_factor_two") is True)


def kf_layered_angle_scan(case, viol):
    """LayeredRayTracer brackets its roots by a fixed scan of launch angles: a pair of roots inside one scan interval is
    missed, so the number of solutions can differ between an endpoint pair and its swapped / moved copy."""
    d = viol["detail"]
    fine = d.get("n_with_20x_finer_angle_scan")
    # only where r(theta) of one leg sequence can have two roots or isolated NaN values at all, i.e. with gradient sub-layers: in a
    # stack of uniform layers r(theta) rises monotonically up to its total-reflection edge, which the tracer refines explicitly
    if not (d.get("family") == "layered-exp" and viol["clause"] == "swapping / moving the endpoints keeps the number of solutions"):
        return False
    # explained by the scan resolution only if the finer scan makes the three executions agree without losing any solution
    # mechanism established by measurement: the number of solutions of at least one of the three executions changes when
    # nothing but the resolution of the launch-angle scan changes (roots next to the NaN edges / jumps of r(theta) are found
    # or lost depending on where the scan points fall).  Counts that are unequal *and* independent of the scan are not this.
    nudged = d.get("n_with_receiver_moved_by_0.1_micrometre")
    n_ = list(d.get("n", []))
    if isinstance(fine, list) and list(fine) != n_:
        return True
    # ... or when the receiver is moved by a tenth of a micrometre (the root finder stepped on an isolated NaN of r(theta))
    return isinstance(nudged, list) and any(list(x) != n_ for x in nudged)


def fx_clamped_z_uniform(case, viol):
    d = viol["detail"]
    return d.get("family") == "layered-exp" and viol["clause"] == "swapping / moving the endpoints keeps the number of solutions" and list(d.get("n_with_20x_finer_angle_scan") or []) == list(d.get("n", []))
