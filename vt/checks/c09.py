"""C09 — antenna / antenna-system hit bookkeeping is consistent under every history.

Monitor shapes: (a) operation histories (receive / all_waveforms / waveforms / is_hit / is_hit_mc_truth /
full_waveform / is_hit_during / make_noise / clear / clear(reset_noise)) checked step by step against a shadow
model of what was received; (b) icontract class invariants on the real Antenna and AntennaSystem evaluated after
every public call; (c) a noise-epoch dictionary: every (absolute time -> noise value) observation of an epoch must
agree with every other one, and a reset must start a different realisation.
"""
import numpy as np
from vt.util import V, EPS, case_rng, rng_for

PROPERTY = "C09"
TITLE = "Hit bookkeeping under every history"
NEEDS_ICONTRACT = True
TECHNIQUE = ("runtime monitoring: operation histories on antennas and antenna systems against a shadow model of the received signals (bit-exact touching windows), a noise-epoch dictionary, recorded front-end grids, icontract class invariants (also evaluated while the repository's own tests run), and for function-backed signals a logical-step monitor (copies of the antenna object made by the queries, counted through __deepcopy__)")
ANCHORS = ["pyrex.antenna:Antenna.waveforms", "pyrex.antenna:Antenna.all_waveforms", "pyrex.antenna:Antenna.full_waveform",
           "pyrex.antenna:Antenna.make_noise", "pyrex.antenna:Antenna.clear", "pyrex.antenna:Antenna.receive",
           "pyrex.detector:AntennaSystem.signals", "pyrex.detector:AntennaSystem.waveforms", "pyrex.detector:AntennaSystem.all_waveforms",
           "pyrex.detector:AntennaSystem.full_waveform", "pyrex.detector:AntennaSystem._calculate_lead_in_times"]
RULE = ("one case = one history of 3-25 operations on an Antenna with threshold trigger / trivial trigger, a DipoleAntenna, "
        "or an AntennaSystem with lead-in 0, 25 ns or a non-integer number of samples and an identity / gain / integer-sample-delay front end, noisy or "
        "noiseless, receiving overlapping, nested and disjoint windows of different lengths and steps; non-trivial = "
        "the history contains a query-receive-query pattern (a query after a receive that followed an earlier query); "
        "distinct = hash of the case")
ASSUMPTIONS = ["zero-extrapolation makes the reference set-valued at a signal's first/last sample: a query time within a few ulp of "
               "the edge may see the edge value or 0", "system delays are applied by index on the lead-in grid"]
BUDGET = {"quick": 400, "thorough": 3600}
_STATE = {"inv_evals": 0}


class InvariantBroken(AssertionError):
    pass


def caches_bounded(self):
    _STATE["inv_evals"] += 1
    waves = getattr(self, "_all_waves", None)
    trig = getattr(self, "_triggers", None)
    if waves is None or trig is None:
        return True
    try:
        sigs = self.antenna.signals if hasattr(self, "antenna") and not hasattr(self, "noisy") else self.signals
    except AttributeError:
        return True        # e.g. an AntennaSystem whose antenna has not been set up yet: nothing to compare
    return len(waves) <= len(sigs) and len(trig) <= len(waves)


def setup():
    import icontract
    import pyrex.antenna as pa
    import pyrex.detector as pd
    if not getattr(pa.Antenna, "_vt_inv", False):
        icontract.invariant(caches_bounded, error=InvariantBroken)(pa.Antenna)
        pa.Antenna._vt_inv = True
    if not getattr(pd.AntennaSystem, "_vt_inv", False):
        icontract.invariant(caches_bounded, error=InvariantBroken)(pd.AntennaSystem)
        pd.AntennaSystem._vt_inv = True


def gen_cases(tier, seed):
    rng = rng_for(PROPERTY, seed)
    n = 640 if tier == "quick" else 25000
    out = []
    kinds = ["antenna-threshold", "antenna-trivial", "dipole", "system-identity", "system-gain", "system-delay", "system-delay", "antenna-threshold", "system-odd-lead-in", "system-long-lead-in", "system-long-lead-in"]
    for i in range(n):
        kind = kinds[i % len(kinds)]
        out.append({"cls": kind + (":noisy" if (i // len(kinds)) % 2 else ":noiseless"), "kind": kind, "noisy": bool((i // len(kinds)) % 2),
                    "nops": int(rng.integers(3, 26)), "unique": int(rng.integers(1, 6)), "nd": int(rng.integers(1, 20)), "gain": float(rng.uniform(0.5, 2))})
    for j in range(12 if tier == "quick" else 200):
        # function-backed signals (what every Askaryan pulse is): values, and the work a query does, counted in copies of the antenna
        out.append({"cls": "function-backed", "kind": "function-backed", "k": int(rng.integers(2, 5)), "salt": int(rng.integers(0, 2**31)), "system": bool(j % 2)})
    out.append({"cls": "repo-suite", "files": ['tests/test_antenna.py', 'tests/test_detector.py', 'tests/test_kernel.py']})      # the repository's own tests as one more workload for the contract
    return out


def run_function_backed(case):
    """k function-backed signals received by an antenna (or system): one waveform per signal == the sum of the signals on that grid,
    and the queries' work counted in logical steps - how often the antenna object itself is copied - stays linear in k."""
    import copy
    import pyrex.antenna as pa
    import pyrex.detector as pd
    from pyrex.signals import FunctionSignal
    v = V()
    rng = case_rng(case, case["salt"])
    copies = [0]

    class CountedAntenna(pa.Antenna):
        def __deepcopy__(self, memo):
            copies[0] += 1
            new = self.__class__.__new__(self.__class__)
            memo[id(self)] = new
            for k_, val in self.__dict__.items():
                setattr(new, k_, copy.deepcopy(val, memo))
            return new
    k = case["k"]
    if case["system"]:
        ant = pd.AntennaSystem(CountedAntenna)
        ant.setup_antenna(position=(0, 0, -100), noisy=False)
    else:
        ant = CountedAntenna((0, 0, -100), noisy=False)
    dt = 1e-9
    grids, funcs = [], []
    for i in range(k):
        t_i = float(rng.uniform(0, 60)) * dt + np.arange(int(rng.integers(40, 120))) * dt
        w_, c_ = float(rng.uniform(1e8, 4e8)), float(t_i[len(t_i) // 2])
        f_i = (lambda x, w_=w_, c_=c_: np.sin(w_ * (x - c_)) * np.exp(-((x - c_) / 1.5e-8) ** 2))
        grids.append(t_i)
        funcs.append(f_i)
        ant.receive(FunctionSignal(t_i, f_i, "voltage"), direction=(0, 0, 1), polarization=(1, 0, 0))
    c0 = copies[0]
    waves = ant.all_waveforms
    hit = ant.is_hit
    trig = ant.waveforms
    span = np.arange(0, 200) * dt
    full = ant.full_waveform(span)
    n_copies = copies[0] - c0
    v.check(len(waves) == k, "one waveform per received signal", got=len(waves), expected=k)
    for i, w in enumerate(waves[:k]):
        v.check(np.array_equal(np.asarray(w.times), grids[i]), "waveform i is on the grid of received signal i", i=i)
        exp = sum(f_(grids[i]) for f_ in funcs)          # a function-backed signal is re-evaluated on the other grid, not cut to its own span
        v.close("noiseless waveform == sum of the received function-backed signals on that grid", float(np.max(np.abs(np.asarray(w.values, float) - exp))), 1e-9, i=i, k=k)
    expf = sum(f_(span) for f_ in funcs)
    v.close("full waveform == sum of the received function-backed signals on the window", float(np.max(np.abs(np.asarray(full.values, float) - expf))), 1e-9, k=k)
    v.check(isinstance(hit, (bool, np.bool_)) and len(trig) <= k, "is_hit is a boolean and the triggered waveforms are among the k")
    # logical-step bound instead of a clock: exponential work shows as 91 / 1020 / 14058 antenna copies for k = 2 / 3 / 4 (measured
    # on the tree before its repair), linear work as 0; ten per signal and query is far above anything linear
    v.check(n_copies <= 10 * k * 4, "queries copy the antenna at most a bounded number of times per received signal (work linear in k)", antenna_copies=n_copies, k=k, system=case["system"])
    return v.result(decided=True, nontrivial=True, sample={"k": k, "antenna_copies_during_queries": n_copies, "system": case["system"]})


def run_case(case):
    if case["cls"] == "repo-suite":
        from vt import suite
        v_ = V()
        rep = suite.run("c09", case["files"])
        evals = sum(sum(x for x in d.values() if isinstance(x, int)) for d in rep.get("contract_evaluations", {}).values())
        v_.events += evals
        for f_ in rep.get("contract_failures", []):
            v_.check(False, "contract holds while the repository's own tests run", test=f_["test"], message=f_["message"])
        sample_ = {"workload": "repository test files under the contract", "files": rep.get("files"), "tests_collected": rep.get("collected"), "contract_evaluations": evals, "pytest": rep.get("tail")}
        if rep.get("returncode") != 0 and not rep.get("contract_failures"):
            return v_.result(decided=False, nontrivial=False, sample=sample_, skip="repository tests did not pass under the plugin")
        return v_.result(decided=True, nontrivial=evals >= 50, sample=sample_)
    import pyrex.antenna as pa
    import pyrex.detector as pd
    from pyrex.signals import Signal
    if case["cls"] == "function-backed":
        return run_function_backed(case)
    v = V()
    rng = case_rng(case)
    kind, noisy = case["kind"], case["noisy"]
    dt = 1e-9

    # overall magnitude of the received voltages: ordinary, or nano- / picovolt scale (noiseless cases; thresholds scale with it)
    amp = 1.0 if noisy else [1.0, 1.0, 1e-9, 1e-12][case["nd"] % 4]

    class ThrAnt(pa.Antenna):
        thr = 0.8 * amp

        def trigger(self, signal):
            return bool(np.max(np.abs(signal.values)) > self.thr)

    class FrontSys(pd.AntennaSystem):
        lead_in_time = 25e-9

        def __init__(self, ant, nd, gain, lead):
            super().__init__(ant)
            self.nd, self.gain, self.lead_in_time = nd, gain, lead

        def front_end(self, sig):
            front_calls.append((float(sig.times[0]), float(sig.times[-1]), len(sig.times), float(sig.times[1] - sig.times[0]) if len(sig.times) > 1 else 0.0))
            c = sig.copy()
            tau = self.nd * sig.dt
            g = self.gain
            c.filter_frequencies(lambda f: g * np.exp(-2j * np.pi * f * tau), force_real=True)
            return c

    nd, gain = 0, 1.0
    front_calls = []
    lead = 0.0
    master = np.arange(-400, 600) * dt        # every dt-step grid is a slice of this array: equal nominal times are equal bit for bit
    if kind == "dipole":
        base = pa.DipoleAntenna("d", (0, 0, -100), 250e6, 300e6, 300.0, 50.0, trigger_threshold=float(rng.choice([0.0, 2e-5, 0.3])), noisy=noisy,
                                unique_noise_waveforms=case["unique"])
    elif kind == "antenna-trivial":
        base = pa.Antenna((0, 0, -100), noisy=noisy, freq_range=(5e7, 4e8), noise_rms=0.2, unique_noise_waveforms=case["unique"])
    else:
        base = ThrAnt((0, 0, -100), noisy=noisy, freq_range=(5e7, 4e8), noise_rms=0.2, unique_noise_waveforms=case["unique"])
    if kind == "system-identity":
        obj = FrontSys(base, 0, 1.0, 0.0)
    elif kind == "system-gain":
        gain = case["gain"]
        lead = 25e-9
        obj = FrontSys(base, 0, gain, lead)
    elif kind == "system-delay":
        nd, gain = case["nd"], case["gain"]
        lead = 25e-9
        obj = FrontSys(base, nd, gain, lead)
    elif kind == "system-long-lead-in":
        # lead-in (120 ns) longer than any received signal (8-20 ns) and a front end that remembers up to 95 ns: a later, disjoint
        # signal inside another waveform's lead-in window changes that waveform
        nd, gain = 5 * case["nd"], case["gain"]
        lead = 120e-9
        obj = FrontSys(base, nd, gain, lead)
    elif kind == "system-odd-lead-in":
        # lead-in that is not a whole number of samples; the front end remembers nd whole samples (< lead-in)
        nd, gain = case["nd"] % 8, case["gain"]
        lead = (nd + float(rng.choice([0.5, 0.25, 0.9, 0.999]))) * dt
        obj = FrontSys(base, nd, gain, lead)
    else:
        obj = base
    is_sys = obj is not base
    model = []          # (times, values) of every signal the antenna holds, as processed by its response
    epoch, noise_obs, log = 0, {}, []
    prev_epoch_obs = {}
    state = {"qrq": 0}

    def expected(times):
        times = np.asarray(times)
        if nd == 0:
            return gain * sum((np.interp(times, t, x, left=0, right=0) for t, x in model), np.zeros(len(times)))
        step = times[1] - times[0]
        ext = np.concatenate((times[0] + np.arange(-nd, 0) * step, times))
        S = sum((np.interp(ext, t, x, left=0, right=0) for t, x in model), np.zeros(len(ext)))
        return gain * S[:len(times)]

    def check_wave(w, times, tag):
        times = np.asarray(times)
        if not v.check(len(w.times) == len(times) and np.array_equal(w.times, times), "waveform is on the requested time grid", which=tag, history=log[-6:]):
            return False
        e0 = expected(times)
        lo, hi = e0.copy(), e0.copy()
        step = times[1] - times[0]
        for (t, x) in model:
            for edge_t, edge_v in ((t[0], x[0]), (t[-1], x[-1])):
                near = np.where(np.abs((times - nd * step) - edge_t) <= 32 * EPS * max(abs(edge_t), abs(times[0]), abs(times[-1]), 1e-300) + 1e-22)[0]
                for i in near:
                    if nd == 0 and times[i] == edge_t:
                        continue          # bit-for-bit the edge sample itself: the edge value, nothing else
                    # every ambiguous edge may or may not contribute its value: several edges can coincide at one query time
                    lo[i] -= abs(gain * edge_v)
                    hi[i] += abs(gain * edge_v)
        wv = np.asarray(w.values, float)
        if not noisy:
            resid = np.where(wv < lo, wv - lo, np.where(wv > hi, wv - hi, 0.0))
            scale = max(amp, float(np.max(np.abs(e0)))) if len(e0) else amp
            return v.close("noiseless waveform == sum of the received signals interpolated onto the window", float(np.max(np.abs(resid))) / scale if len(resid) else 0.0,
                           1e-9, which=tag, history=log[-8:], n_signals=len(model), window_ns=[float(times[0] * 1e9), float(times[-1] * 1e9)])
        resid = wv - e0
        edge_idx = set(np.where(hi > lo)[0].tolist())
        worst = 0.0
        for ii, (tt, r) in enumerate(zip(times, resid)):
            if ii in edge_idx or abs(step - dt) > 1e-15:
                continue
            key = int(round(tt / dt))
            if abs(tt - key * dt) > 1e-6 * dt:
                continue
            if key in noise_obs:
                worst = max(worst, abs(noise_obs[key] - r))
            else:
                noise_obs[key] = float(r)
        return v.close("same noise realisation at the same absolute times", worst, 1e-8, which=tag, history=log[-8:], epoch=epoch)

    last_query, seen_q_r = False, False
    for stepi in range(case["nops"]):
        op = str(rng.choice(["receive", "receive", "receive", "receive_refused", "signals", "all", "waves", "is_hit", "mc_truth", "full", "during", "noise", "clear", "clear_reset"]))
        log.append(op)
        try:
            if op == "receive_refused":
                # two polarization components on different grids (cannot be added) / fewer polarizations than signals: refused,
                # and nothing of the refused call may stay behind
                n_ = int(rng.integers(10, 40))
                i_ = int(rng.integers(-50, 150)) + 400
                sA = Signal(master[i_:i_ + n_].copy(), rng.normal(size=n_) + 2.0, "voltage")
                sB = Signal(master[i_ + 3:i_ + 3 + n_].copy(), rng.normal(size=n_) + 2.0, "voltage")
                n_before = len(base.signals)
                variant = int(rng.integers(0, 2))
                try:
                    if variant == 0:
                        obj.receive([sA, sB], direction=(1.0, 0.0, 0.0), polarization=[(0.0, 0.0, 1.0), (0.0, 0.0, 1.0)])
                    else:
                        obj.receive([sA, sA], direction=(1.0, 0.0, 0.0), polarization=[(0.0, 0.0, 1.0)])
                    v.check(False, "a receive call that cannot be carried out is refused", variant=["components on different grids", "fewer polarizations than signals"][variant], history=log[-6:])
                except ValueError:
                    pass
                v.check(len(base.signals) == n_before, "a refused receive leaves no signal behind", before=n_before, after=len(base.signals), variant=["components on different grids", "fewer polarizations than signals"][variant], history=log[-6:])
                log[-1] = "receive refused (%s)" % ["different grids", "polarization count"][variant]
                continue
            if op == "receive":
                n = int(rng.integers(20, 80)) if kind != "system-long-lead-in" else int(rng.integers(8, 21))
                t0 = int(rng.integers(-50, 150)) * dt
                sdt = dt if rng.random() < 0.8 else float(rng.choice([0.5e-9, 2e-9]))
                if nd and sdt > dt:
                    sdt = 0.5e-9      # the front end delays by nd samples of the window's step: keep nd*step <= lead-in (25 ns)
                if sdt == dt:
                    i0 = int(round(t0 / dt)) + 400
                    if model and rng.random() < 0.3:
                        # touching grids: start exactly on the last sample of an earlier signal, or end exactly on its first
                        tt_ = model[int(rng.integers(0, len(model)))][0]
                        j_ = int(round(tt_[-1] / dt)) + 400 if rng.random() < 0.5 else int(round(tt_[0] / dt)) + 400 - (n - 1)
                        if 0 <= j_ and j_ + n <= len(master) and abs(tt_[1] - tt_[0] - dt) < 1e-15:
                            i0 = j_
                    if kind == "system-long-lead-in" and model and rng.random() < 0.8:
                        # disjoint from an earlier signal, but exactly one front-end delay before it: it reaches that signal's waveform
                        tt_ = model[int(rng.integers(0, len(model)))][0]
                        j_ = int(round(tt_[0] / dt)) + 400 - nd + int(rng.integers(-n // 2, len(tt_) // 2 + 1))
                        if 0 <= j_ and j_ + n <= len(master):
                            i0 = j_
                    grid = master[i0:i0 + n].copy()
                else:
                    grid = t0 + np.arange(n) * sdt
                vals_ = rng.normal(size=n) * float(rng.choice([0.1, 1.0]))
                vals_[0] += np.sign(vals_[0]) * 0.5      # edge samples clearly non-zero
                vals_[-1] += np.sign(vals_[-1]) * 0.5
                vals_ *= amp
                s = Signal(grid, vals_, "voltage")
                n_before = len(base.signals)
                ret = obj.receive(s)
                v.check(len(base.signals) == n_before + 1, "receive adds exactly one signal", before=n_before, after=len(base.signals))
                stored = base.signals[-1]
                v.check(np.array_equal(stored.times, s.times), "received signal keeps its own time grid")
                model.append((np.array(stored.times), np.array(stored.values)))
                log[-1] = "receive[%g..%g ns,dt=%g]" % (s.times[0] * 1e9, s.times[-1] * 1e9, sdt)
                if last_query:
                    seen_q_r = True
                last_query = False
                continue
            if op in ("signals", "all", "waves", "is_hit", "mc_truth", "full", "during"):
                if seen_q_r:
                    state["qrq"] += 1
                    seen_q_r = False
                last_query = True
            if op == "signals":
                sigs = obj.signals
                if v.check(len(sigs) == len(model), "one stored signal per receive", got=len(sigs), expected=len(model), history=log[-6:]):
                    for k, (sg_, (t, x)) in enumerate(zip(sigs, model)):
                        v.check(np.array_equal(sg_.times, t), "stored signal is on its own grid", k=k)
                        if is_sys:
                            # each passed through the front end: gain * s(t - tau), lead-in taken from the signal itself (zeros)
                            step = t[1] - t[0]
                            ext = np.concatenate((np.zeros(nd), x))[:len(x)] if nd else x
                            v.close("system signal == front end applied to the antenna signal", float(np.max(np.abs(np.asarray(sg_.values) - gain * ext))), 1e-9 * max(amp, float(np.max(np.abs(x)))), k=k, history=log[-6:])
                        else:
                            v.check(np.array_equal(sg_.values, x), "antenna signal unchanged by queries", k=k)
            elif op in ("all", "waves", "is_hit", "mc_truth"):
                allw = obj.all_waveforms
                if v.check(len(allw) == len(model), "one waveform per received signal", got=len(allw), expected=len(model), history=log[-6:]):
                    ok = True
                    for k, (w, (t, x)) in enumerate(zip(allw, model)):
                        ok = check_wave(w, t, "all_waveforms[%d]" % k) and ok
                    if ok and op in ("waves", "is_hit", "mc_truth"):
                        exp_trig = [bool(obj.trigger(w)) for w in allw]
                        ws = obj.waveforms
                        v.check([id(w) for w in ws] == [id(w) for w, tr in zip(allw, exp_trig) if tr], "triggered waveforms == those satisfying the trigger, in reception order",
                                triggers=exp_trig, n_returned=len(ws), history=log[-6:])
                        v.check(bool(obj.is_hit) == (sum(exp_trig) > 0), "is_hit <=> at least one triggered waveform", is_hit=bool(obj.is_hit), triggers=exp_trig, history=log[-6:])
                        if op == "mc_truth":
                            mc = bool(obj.is_hit_mc_truth)
                            v.check((not mc) or sum(exp_trig) > 0, "is_hit_mc_truth implies is_hit", history=log[-6:])
            elif op in ("full", "during"):
                n = int(rng.integers(10, 120))
                i0 = int(rng.integers(-100, 200)) + 400
                if model and rng.random() < 0.35:
                    # window starting exactly on a signal's last sample / ending exactly on a signal's first sample
                    tt_ = model[int(rng.integers(0, len(model)))][0]
                    if abs(tt_[1] - tt_[0] - dt) < 1e-15:
                        j_ = int(round(tt_[-1] / dt)) + 400 if rng.random() < 0.5 else int(round(tt_[0] / dt)) + 400 - (n - 1)
                        if 0 <= j_ and j_ + n <= len(master):
                            i0 = j_
                times = master[i0:i0 + n].copy()
                del front_calls[:]
                w = obj.full_waveform(times)
                if is_sys and lead > 0:
                    ends = [c for c in front_calls if abs(c[1] - times[-1]) <= 1e-6 * dt]
                    v.check(bool(ends) and all(c[0] <= times[0] - lead + 1e-6 * dt and abs(c[3] - dt) <= 1e-6 * dt for c in ends),
                            "the front end is handed the window preceded by at least the configured lead-in, on the window's step", lead_in_ns=lead * 1e9,
                            window_start_ns=float(times[0] * 1e9), front_end_saw=[[c[0] * 1e9, c[1] * 1e9, c[2]] for c in front_calls[:3]], history=log[-6:])
                ok = check_wave(w, times, "full_waveform")
                if ok and op == "during":
                    v.check(bool(obj.is_hit_during(times)) == bool(obj.trigger(obj.full_waveform(times))), "is_hit_during == trigger(full_waveform)", history=log[-6:])
            elif op == "noise":
                if noisy and not is_sys:
                    n = int(rng.integers(10, 100))
                    t0 = int(rng.integers(-100, 200)) * dt
                    times = t0 + np.arange(n) * dt
                    nz = obj.make_noise(times)
                    worst = 0.0
                    for tt, r in zip(times, np.asarray(nz.values)):
                        key = int(round(tt / dt))
                        if key in noise_obs:
                            worst = max(worst, abs(noise_obs[key] - r))
                        else:
                            noise_obs[key] = float(r)
                    v.close("same noise realisation at the same absolute times", worst, 1e-8, which="make_noise", history=log[-8:], epoch=epoch)
            elif op in ("clear", "clear_reset"):
                if op == "clear":
                    obj.clear()
                else:
                    obj.clear(reset_noise=True)
                    epoch += 1
                    prev_epoch_obs = dict(noise_obs)
                    noise_obs.clear()
                model.clear()
                empty = len(obj.signals) == 0 and len(obj.all_waveforms) == 0 and len(obj.waveforms) == 0 and not obj.is_hit and len(base.signals) == 0
                v.check(empty, "clear returns to the empty state", history=log[-6:])
                if op == "clear_reset" and noisy and prev_epoch_obs and not is_sys:
                    ks = sorted(prev_epoch_obs)[:40]
                    times = np.arange(min(ks), min(ks) + 60) * dt
                    nz = np.asarray(obj.make_noise(times).values)
                    for tt, r in zip(times, nz):
                        noise_obs[int(round(tt / dt))] = float(r)
                    same = [abs(prev_epoch_obs[k] - noise_obs[k]) for k in ks if k in noise_obs]
                    if len(same) >= 5:
                        v.check(max(same) > 1e-6, "noise reset starts a different realisation", max_difference=float(max(same)))
        except InvariantBroken as e:
            v.check(False, "cache invariant: no more cached waveforms than signals, no more trigger results than waveforms", op=op, history=log[-6:], contract=str(e)[:200])
            break
        if v.violations:
            break
    sample = {"kind": kind, "noisy": noisy, "delay_samples": nd, "gain": gain, "history": log, "query_receive_query": state["qrq"]}
    return v.result(decided=True, nontrivial=state["qrq"] > 0, sample=sample)


def fx_stale_waveform_cache(case, viol):
    return viol["clause"].startswith("noiseless waveform == sum") and str(viol["detail"].get("which", "")).startswith("all_waveforms")


def fx_function_signal_deepcopy(case, viol):
    return viol["clause"].startswith("queries copy the antenna at most a bounded number of times")
