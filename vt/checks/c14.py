"""C14 — interactions conserve energy, cross sections are consistent, event trees are well formed.

Monitor shapes: (b) icontract post-condition on the real Interaction.__init__ (bounds of y, em, had on every
generated interaction); (c) recorded draws decided by statistical oracles (binomial z for the CC/NC split, KS against
analytic CDFs re-derived from the sampling formulas, threshold p < 1e-6); cross-section ladders; (a) event-tree
histories of add_children against a dict-of-lists model.
"""
import numpy as np
from vt.util import V, case_rng, rng_for

PROPERTY = "C14"
TITLE = "Interactions, cross sections, event trees"
NEEDS_ICONTRACT = True
TECHNIQUE = ("runtime monitoring: icontract post-condition on Interaction.__init__ over every generated interaction (also while the repository's own tests run), statistical oracles on recorded draws, cross-section ladders incl. a re-assigned particle, event-tree histories against a dict-of-lists model")
ANCHORS = ["pyrex.particle:Interaction.__init__", "pyrex.particle:GQRSInteraction.choose_interaction", "pyrex.particle:CTWInteraction.choose_interaction",
           "pyrex.particle:GQRSInteraction.choose_inelasticity", "pyrex.particle:CTWInteraction.choose_inelasticity",
           "pyrex.particle:GQRSInteraction.choose_shower_fractions", "pyrex.particle:GQRSInteraction._choose_secondary_fractions",
           "pyrex.particle:Event.add_children", "pyrex.particle:Event.get_children", "pyrex.particle:Event.get_parent", "pyrex.particle:Event.get_from_level"]
RULE = ("'draws' case = N interactions (6e4 quick, 2.4e5 thorough) of one (model GQRS/CTW, energy 10^d GeV for d in 3..12 incl. "
        "the decade boundaries, secondaries on/off, free or forced interaction kind) over all six neutrino types, every "
        "one checked by the contract and the sample by the statistical oracles; 'xsec' case = a 400-point energy ladder "
        "for one (model, neutrino type); 'tree' case = one random event tree (1-4 roots, depth <= 5, <= 40 particles, "
        "children given singly and as lists); non-trivial = >= 1000 draws / full ladder / tree with >= 3 particles; "
        "distinct = hash of the case")
ASSUMPTIONS = ["statistical clauses reject at p < 1e-6 (z > 4.9)", "the published CC/NC fractions and inelasticity distributions are the analytic "
               "inverses of the models' sampling formulas, typed independently in this module"]
BUDGET = {"quick": 600, "thorough": 5400}
CASE_TIMEOUT = {"quick": 300, "thorough": 1200}
_STATE = {"evals": 0}
IDS = ["nu_e", "nu_e_bar", "nu_mu", "nu_mu_bar", "nu_tau", "nu_tau_bar"]


class PostBroken(AssertionError):
    pass


def fractions_ok(self):
    _STATE["evals"] += 1
    y, em, had = self.inelasticity, self.em_frac, self.had_frac
    return bool(0 <= y <= 1 and em >= 0 and had >= 0 and em + had <= 1 + 1e-12)


def setup():
    import icontract
    import pyrex.particle as pp
    if not getattr(pp.Interaction.__init__, "_vt_wrapped", False):
        w = icontract.ensure(fractions_ok, error=PostBroken)(pp.Interaction.__init__)
        w._vt_wrapped = True
        pp.Interaction.__init__ = w


def gen_cases(tier, seed):
    rng = rng_for(PROPERTY, seed)
    out = []
    N = 60000 if tier == "quick" else 240000
    decades = [3, 4, 7, 10] if tier == "quick" else [3, 4, 5, 6, 7, 8, 9, 10, 11, 12]
    for model in ("CTW", "GQRS"):
        for d in decades:
            e = float(d) if rng.random() < 0.7 or d in (3, 12) else float(d + rng.uniform(-0.5, 0.5))
            for sec in (True, False):
                out.append({"cls": "draws:%s" % model, "model": model, "log10E": e, "secondaries": sec, "forced": None, "N": N, "salt": int(rng.integers(0, 2**31))})
        out.append({"cls": "draws:%s" % model, "model": model, "log10E": float(rng.uniform(3, 12)), "secondaries": True, "forced": ["cc", "nc"][int(rng.integers(0, 2))], "N": N // 4, "salt": int(rng.integers(0, 2**31))})
        for pid in IDS if tier == "thorough" else ["nu_e", "nu_mu_bar", "nu_tau"]:
            out.append({"cls": "xsec:%s" % model, "model": model, "pid": pid})
    ntree = 300 if tier == "quick" else 6000
    for i in range(ntree):
        out.append({"cls": "tree", "salt": int(rng.integers(0, 2**31))})
    out.append({"cls": "repo-suite", "files": ['tests/test_particle.py', 'tests/test_generation.py', 'tests/test_kernel.py']})      # the repository's own tests as one more workload for the contract
    return out


def ks_pvalue(sample, cdf):
    from scipy import stats
    return float(stats.kstest(sample, cdf).pvalue)


def ctw_cdf(eps, a0, a1, a2, a3):
    """Analytic CDF of the CTW inelasticity (low-y branch with probability p_low, eqs. 14-18)."""
    plow = max(0.128 * np.sin(-0.197 * (eps - 21.8)), 0.0)
    c2 = 2.55 - 0.0949 * eps
    c1h = a0 - a1 * np.exp(-(eps - a2) / a3)
    c1l = 0.0 - 0.0941 * np.exp(-(eps - 4.72) / 0.456)
    e_ = 1 - 1 / c2

    def cdf(y):
        y = np.asarray(y, float)
        low = np.clip(((np.clip(y, 0, 1e-3) - c1l) ** e_ - (0 - c1l) ** e_) / ((1e-3 - c1l) ** e_ - (0 - c1l) ** e_), 0, 1)
        hi = np.clip(np.log((np.maximum(y, 1e-3) - c1h) / (1e-3 - c1h)) / np.log((1 - c1h) / (1e-3 - c1h)), 0, 1)
        return plow * low + (1 - plow) * np.where(y < 1e-3, 0.0, hi)
    return cdf


def gqrs_cdf(y):
    return 1 - (np.exp(-np.asarray(y, float) ** 0.4) - 1 / np.e) / (1 - 1 / np.e)


def run_draws(case, v):
    import pyrex.particle as pp
    import scipy.constants
    base = {"CTW": pp.CTWInteraction, "GQRS": pp.GQRSInteraction}[case["model"]]
    model = base if case["secondaries"] else type("NoSecondaries" + base.__name__, (base,), {"include_secondaries": False})
    np.random.seed((case["salt"] + 17) % 2**32)
    E = 10.0 ** case["log10E"]
    eps = case["log10E"]
    N = case["N"]
    kinds = []
    ys = {("cc", 1): [], ("cc", -1): [], ("nc", 1): [], ("nc", -1): []}
    NA = scipy.constants.N_A
    n_contract0 = _STATE["evals"]
    for i in range(N):
        pid = IDS[i % 6]
        try:
            p = pp.Particle(pid, (0, 0, -100), (0, 0, 1), E, interaction_model=model, interaction_type=case["forced"])
        except PostBroken as e:
            v.check(False, "every interaction: 0<=y<=1, em,had>=0, em+had<=1", pid=pid, contract=str(e)[:300])
            continue
        it = p.interaction
        y, em, had = it.inelasticity, it.em_frac, it.had_frac
        nc = it.kind.name == "neutral_current"
        if nc:
            v.check(em == 0 and had == y, "neutral current: all hadronic, exactly the inelasticity", em=float(em), had=float(had), y=float(y), pid=pid)
        elif pid.startswith("nu_e"):
            v.check(abs(em + had - 1) <= 1e-15, "charged-current electron neutrino: fractions sum to exactly 1", em=float(em), had=float(had))
        if i < 600:
            v.close("interaction length == 1/(N_A sigma)", max(abs(it.interaction_length * NA * it.cross_section - 1), abs(it.total_interaction_length * NA * it.total_cross_section - 1)), 1e-12)
        kinds.append(nc)
        ys[("nc" if nc else "cc", 1 if not pid.endswith("bar") else -1)].append(y)
    n_contract = _STATE["evals"] - n_contract0
    v.check(n_contract >= len(kinds), "contract on Interaction.__init__ evaluated for every draw", evaluated=n_contract, draws=len(kinds))
    v.events += n_contract
    # ---- recorded randomness: the uniform numbers the real methods draw are recorded at numpy's boundary, and the published inverse
    # sampling formulas (typed here, independently) are applied to exactly those numbers -- decides what statistics cannot resolve
    drawn = []
    orig_rand = np.random.rand

    def spy(*a_):
        u_ = orig_rand(*a_)
        drawn.extend(np.ravel(u_).tolist())        # one call may draw several numbers at once
        return u_
    n_exact = 0
    for i in range(min(N, 1500)):
        pid = IDS[i % 6]
        kind_ = ["cc", "nc"][(i // 6) % 2]
        try:
            p = pp.Particle(pid, (0, 0, -100), (0, 0, 1), E, interaction_model=model, interaction_type=kind_)
        except PostBroken:
            continue
        it = p.interaction
        np.random.rand = spy
        try:
            del drawn[:]
            y_ = float(it.choose_inelasticity())
            u_y = [float(x) for x in drawn]
            del drawn[:]
            k_ = it.choose_interaction()
            u_k = [float(x) for x in drawn]
        finally:
            np.random.rand = orig_rand
        anti = pid.endswith("bar")
        if case["model"] == "GQRS":
            ok_n = len(u_y) == 1 and len(u_k) == 1
            want_y = (-np.log(1 / np.e + u_y[0] * (1 - 1 / np.e))) ** 2.5 if ok_n else None
            want_nc = (not (u_k[0] < 0.6865254)) if ok_n else None
        else:
            ok_n = len(u_y) == 2 and len(u_k) == 1
            if ok_n:
                low = u_y[0] < 0.128 * np.sin(-0.197 * (eps - 21.8))
                a0, a1, a2, a3 = (0.0, 0.0941, 4.72, 0.456) if low else ({("cc", False): (-0.008, 0.26, 3.0, 1.7), ("cc", True): (-0.0026, 0.085, 4.1, 1.7)}.get((kind_, anti), (-0.005, 0.23, 3.0, 1.7)))
                c1, c2 = a0 - a1 * np.exp(-(eps - a2) / a3), 2.55 - 0.0949 * eps
                r_ = u_y[1]
                want_y = (c1 + (r_ * (1e-3 - c1) ** (1 - 1 / c2) + (1 - r_) * (0 - c1) ** (1 - 1 / c2)) ** (c2 / (c2 - 1))) if low else ((1 - c1) ** r_ / (1e-3 - c1) ** (r_ - 1) + c1)
                want_nc = u_k[0] < 0.252162 + 0.0256 * np.log(eps - 1.76)
        if not v.check(ok_n, "inelasticity and interaction type are drawn by inverse sampling from the expected number of uniform numbers", drawn_for_y=len(u_y), drawn_for_kind=len(u_k), model=case["model"]):
            break
        n_exact += 1
        v.close("inelasticity == the published inverse-sampling formula applied to the recorded uniform numbers", abs(y_ - want_y) / max(abs(want_y), 1e-12), 1e-9,
                model=case["model"], pid=pid, kind=kind_, log10E=eps, uniforms=u_y, y=y_, expected=float(want_y))
        v.check((k_.name == "neutral_current") == bool(want_nc), "interaction type == the published CC/NC fraction applied to the recorded uniform number", model=case["model"], log10E=eps, uniform=u_k[0], chosen=k_.name)
    v.events += n_exact
    # CC/NC split against the published fraction
    if case["forced"] is None and kinds:
        ncf = float(np.mean(kinds))
        pn = 0.252162 + 0.0256 * np.log(eps - 1.76) if case["model"] == "CTW" else 1 - 0.6865254
        z = (ncf - pn) / np.sqrt(pn * (1 - pn) / len(kinds))
        v.close("interaction type follows the published CC/NC split (binomial z)", abs(z), 4.9, nc_fraction=ncf, published=float(pn), n=len(kinds))
    elif kinds:
        v.check(all(kinds) if case["forced"] == "nc" else not any(kinds), "a forced interaction type is kept")
    # inelasticity distributions
    for (k, sign), arr in ys.items():
        if len(arr) < 300:
            continue
        if case["model"] == "GQRS":
            pv = ks_pvalue(arr, gqrs_cdf)
        else:
            pars = {("cc", 1): (-0.008, 0.26, 3, 1.7), ("cc", -1): (-0.0026, 0.085, 4.1, 1.7), ("nc", 1): (-0.005, 0.23, 3, 1.7), ("nc", -1): (-0.005, 0.23, 3, 1.7)}[(k, sign)]
            pv = ks_pvalue(arr, ctw_cdf(eps, *pars))
        v.check(pv >= 1e-6, "inelasticity follows the published distribution (KS)", kind=k, antineutrino=sign < 0, p_value=pv, n=len(arr), model=case["model"], log10E=eps)
        v.metric("-log10(min KS p)", -np.log10(max(pv, 1e-300)))
    return {"model": case["model"], "log10E": eps, "secondaries": case["secondaries"], "forced": case["forced"], "draws": len(kinds),
            "nc_fraction": float(np.mean(kinds)) if kinds else None, "contract_evaluations": n_contract}, len(kinds) >= 1000


def run_xsec(case, v):
    import pyrex.particle as pp
    model = {"CTW": pp.CTWInteraction, "GQRS": pp.GQRSInteraction}[case["model"]]
    Es = 10 ** np.linspace(3, 12, 400)
    tot, cc, nc = [], [], []
    for E in Es:
        a = pp.Particle(case["pid"], (0, 0, -1), (0, 0, 1), float(E), interaction_model=model, interaction_type="cc").interaction
        b = pp.Particle(case["pid"], (0, 0, -1), (0, 0, 1), float(E), interaction_model=model, interaction_type="nc").interaction
        tot.append(a.total_cross_section)
        cc.append(a.cross_section)
        nc.append(b.cross_section)
        v.check(a.total_cross_section == b.total_cross_section, "total cross section does not depend on the interaction kind")
    tot, cc, nc = map(np.array, (tot, cc, nc))
    # one particle walked along the same ladder, its energy and interaction kind re-assigned at every step: same numbers
    walker = pp.Particle(case["pid"], (0, 0, -1), (0, 0, 1), float(Es[0]), interaction_model=model, interaction_type="cc")
    w_tot, w_cc, w_nc, w_len = [], [], [], []
    for E in Es[::7]:
        walker.energy = float(E)
        walker.interaction.kind = "cc"
        w_cc.append(walker.interaction.cross_section)
        w_len.append(walker.interaction.total_interaction_length)
        walker.interaction.kind = "nc"
        w_nc.append(walker.interaction.cross_section)
        w_tot.append(walker.interaction.total_cross_section)
    v.close("a particle whose energy and interaction kind are re-assigned reports the cross sections of a fresh one",
            float(max(np.max(np.abs(np.array(w_cc) / cc[::7] - 1)), np.max(np.abs(np.array(w_nc) / nc[::7] - 1)), np.max(np.abs(np.array(w_tot) / tot[::7] - 1)))), 1e-12)
    import scipy.constants
    v.close("interaction length == 1/(N_A sigma_total) along the walk", float(np.max(np.abs(np.array(w_len) * scipy.constants.N_A * tot[::7] - 1))), 1e-12)
    v.check(bool(np.all(cc > 0) and np.all(nc > 0) and np.all(tot > 0)), "cross sections are positive")
    v.check(bool(np.all(np.diff(tot) > 0) and np.all(np.diff(cc) > 0) and np.all(np.diff(nc) > 0)), "cross sections increase with energy")
    if case["model"] == "CTW":
        v.close("charged- and neutral-current parts add up to the total (default model)", float(np.max(np.abs(cc + nc - tot) / tot)), 1e-12)
    return {"model": case["model"], "pid": case["pid"], "sigma_cc_1e9GeV": float(np.interp(1e9, Es, cc))}, True


def run_tree(case, v):
    import pyrex.particle as pp
    rng = case_rng(case, case["salt"])

    class NI:
        def __init__(self, p, kind=None):
            self.em_frac, self.had_frac, self.kind, self.inelasticity = 0, 0, None, 0

    def mk():
        return pp.Particle("nu_e", (0, 0, -1), (0, 0, 1), 1.0, interaction_model=NI)
    nroot = int(rng.integers(1, 5))
    roots = [mk() for _ in range(nroot)]
    ev = pp.Event(roots if (nroot > 1 or rng.random() < 0.5) else roots[0])
    parent = {id(r): None for r in roots}
    children = {id(r): [] for r in roots}
    allp = list(roots)
    level = {id(r): 0 for r in roots}
    ops = []
    for k in range(int(rng.integers(0, 14))):
        par = allp[int(rng.integers(0, len(allp)))]
        if level[id(par)] >= 5 or len(allp) > 40:
            continue
        kids = [mk() for _ in range(int(rng.integers(1, 4)))]
        if rng.random() < 0.2:
            # children offered for a particle that is not in the tree: refused, and nothing of the refused call may stay behind
            try:
                ev.add_children(mk(), kids[0] if len(kids) == 1 else kids)
                v.check(False, "children for a particle outside the tree are refused", ops=ops)
            except ValueError:
                pass
            ops.append("add_children(stranger, %d) refused" % len(kids))
            continue
        single = len(kids) == 1 and rng.random() < 0.5
        form = "single" if single else str(rng.choice(["list", "tuple", "object array"]))
        ev.add_children(par, kids[0] if single else {"list": list, "tuple": tuple, "object array": lambda k_: np.array(k_, dtype=object)}[form](kids))
        ops.append("add_children(level %d, %s[%d])" % (level[id(par)], form, len(kids)))
        for c in kids:
            parent[id(c)] = par
            children[id(c)] = []
            children[id(par)].append(c)
            level[id(c)] = level[id(par)] + 1
            allp.append(c)
    it_list = list(ev)
    v.check(sorted(map(id, it_list)) == sorted(map(id, allp)) and len(set(map(id, it_list))) == len(it_list), "iteration returns every particle exactly once", got=len(it_list), expected=len(allp), ops=ops)
    v.check(len(ev) == len(allp), "len == number of particles", got=len(ev), expected=len(allp))
    for p in allp:
        v.check([id(c) for c in ev.get_children(p)] == [id(c) for c in children[id(p)]], "get_children returns the particle's own children in order", ops=ops)
        pp_ = ev.get_parent(p)
        v.check(pp_ is parent[id(p)], "get_parent is the inverse of get_children", ops=ops)
    seen = []
    for L in range(0, 8):
        got = sorted(id(p) for p in ev.get_from_level(L))
        exp = sorted(id(p) for p in allp if level[id(p)] == L)
        v.check(got == exp, "get_from_level(k) returns exactly the particles k generations below the roots", level=L, got=len(got), expected=len(exp), ops=ops)
        seen += got
    v.check(sorted(seen) == sorted(map(id, allp)), "levels partition the tree")
    stranger = mk()
    for name, fn in (("get_children", ev.get_children), ("get_parent", ev.get_parent)):
        try:
            fn(stranger)
            v.check(False, "queries about a particle outside the tree are refused", query=name)
        except ValueError:
            v.check(True, "queries about a particle outside the tree are refused")
    return {"roots": nroot, "particles": len(allp), "depth": max(level.values()), "ops": ops}, len(allp) >= 3


def run_case(case):
    if case["cls"] == "repo-suite":
        from vt import suite
        v_ = V()
        rep = suite.run("c14", case["files"])
        evals = sum(sum(x for x in d.values() if isinstance(x, int)) for d in rep.get("contract_evaluations", {}).values())
        v_.events += evals
        for f_ in rep.get("contract_failures", []):
            v_.check(False, "contract holds while the repository's own tests run", test=f_["test"], message=f_["message"])
        sample_ = {"workload": "repository test files under the contract", "files": rep.get("files"), "tests_collected": rep.get("collected"), "contract_evaluations": evals, "pytest": rep.get("tail")}
        if rep.get("returncode") != 0 and not rep.get("contract_failures"):
            return v_.result(decided=False, nontrivial=False, sample=sample_, skip="repository tests did not pass under the plugin")
        return v_.result(decided=True, nontrivial=evals >= 50, sample=sample_)
    v = V()
    kind = case["cls"].split(":")[0]
    sample, nontrivial = {"draws": run_draws, "xsec": run_xsec, "tree": run_tree}[kind](case, v)
    return v.result(decided=True, nontrivial=nontrivial, sample=sample)
