"""C16 — ice models self-consistent: index, inverse, gradient, ranges, attenuation, layered dispatch.

Monitor shape: recorded calls at the public boundary (index, gradient, depth_with_index,
attenuation_length, contains, layer_at_depth, boundaries) + oracle = relations between them
(scalar/array, finite difference, conditioning bound of the inverse, declared outside indices).
"""
import numpy as np
from vt.util import V, EPS, case_rng, rng_for
from vt import gen

PROPERTY = "C16"
TITLE = "Ice models self-consistent"
TECHNIQUE = ('runtime monitoring: index / depth_with_index / gradient / attenuation_length executions on generated, re-parameterised and layered ice models decided by closed forms, scalar-vs-array agreement and round trips')
NEEDS_ICONTRACT = True
_STATE = {"evals": 0}


class PostBroken(AssertionError):
    pass


def inverse_in_range(self, n, result):
    """Post-condition on the real AntarcticIce.depth_with_index: one finite depth per index, inside the valid range."""
    _STATE["evals"] += 1
    r = np.asarray(result, float)
    lo, hi = min(self.valid_range), max(self.valid_range)
    def slack(z):
        # conditioning of the logarithm at a range edge: dz = dn / (a (n0 - n(z))), with dn a few ulp of n0
        d = float(self.n0 - self.index(z))
        return 1e-9 + 64 * EPS * float(self.n0) / (float(self.a) * max(d, EPS * float(self.n0)))
    return bool(r.shape == np.shape(n) and np.all(np.isfinite(r)) and np.all(r >= lo - slack(lo)) and np.all(r <= hi + slack(hi)))


def setup():
    import icontract
    import pyrex.ice_model as im
    if not getattr(im.AntarcticIce.depth_with_index, "_vt_wrapped", False):
        w = icontract.ensure(inverse_in_range, error=PostBroken)(im.AntarcticIce.depth_with_index)
        w._vt_wrapped = True
        im.AntarcticIce.depth_with_index = w


ANCHORS = ["pyrex.ice_model:AntarcticIce.index", "pyrex.ice_model:AntarcticIce.depth_with_index",
           "pyrex.ice_model:AntarcticIce.gradient", "pyrex.ice_model:AntarcticIce.attenuation_length",
           "pyrex.ice_model:ArasimIce.attenuation_length", "pyrex.ice_model:GreenlandIce.attenuation_length",
           "pyrex.ice_model:UniformIce.index",
           "pyrex.custom.layered_ice.ice_model:LayeredIce.layer_at_depth",
           "pyrex.custom.layered_ice.ice_model:LayeredIce.index"]
RULE = ("one case = one ice model (Antarctic/AraSim/Greenland defaults, exponential with random n0,k,a,range and "
        "declared/undeclared outside indices, UniformIce, LayeredIce stacks of 2-5 layers) probed at depths above, "
        "on (+-1 ulp), inside and below its range, with indices below/inside/above its index range and "
        "frequencies 1 kHz..10 GHz in every scalar/array shape; non-trivial = every clause family applicable to "
        "the model was evaluated; distinct = hash of (model parameters, probe seed)")
ASSUMPTIONS = ["'numerically distinguishable from its asymptote' is read as the conditioning bound "
               "8 eps n0 / (a (n0 - n(z))) of the inverse", "Python lists are not 'arrays' (only ndarrays demanded)"]
BUDGET = {"quick": 300, "thorough": 1800}


def gen_cases(tier, seed):
    rng = rng_for(PROPERTY, seed)
    n = 300 if tier == "quick" else 6000
    cases = []
    for i in range(n):
        k = i % 6
        if k == 0:
            spec = gen.random_exp_ice_spec(rng, full=True)
            cls = "exponential-random"
        elif k == 1:
            spec = [{"kind": "antarctic"}, {"kind": "arasim"}, {"kind": "greenland"}][(i // 6) % 3]
            cls = "shipped-default"
        elif k == 2:
            spec = {"kind": "uniform", "n": float(rng.uniform(1.2, 1.9)), "range": [-float(rng.uniform(100, 3000)), 0.0],
                    "above": [1.0, None][int(rng.integers(0, 2))], "below": [None, 1.5][int(rng.integers(0, 2))]}
            cls = "uniform"
        elif k == 3:
            # deep range so that the index saturates at n0 in double precision
            spec = {"kind": "antarctic", "n0": float(rng.uniform(1.5, 1.9)), "k": float(rng.uniform(0.1, 0.6)),
                    "a": float(rng.uniform(0.012, 0.05)), "range": [-float(rng.uniform(2900, 6000)), 0.0]}
            cls = "exponential-saturating"
        else:
            nl = int(rng.integers(2, 6))
            bounds = np.concatenate(([0.0], -np.sort(rng.uniform(20, 2500, size=nl))))
            layers = []
            for j in range(nl):
                r = [float(bounds[j + 1]), float(bounds[j])]
                if rng.random() < 0.5:
                    layers.append({"kind": "uniform", "n": float(rng.uniform(1.3, 1.8)), "range": r, "above": None, "below": None})
                else:
                    layers.append({"kind": "antarctic", "n0": float(rng.uniform(1.6, 1.9)), "k": float(rng.uniform(0.1, 0.5)),
                                   "a": float(rng.uniform(0.005, 0.03)), "range": r, "above": None, "below": None})
            spec = {"kind": "layered", "layers": layers, "above": 1.0, "below": [None, 1.9][int(rng.integers(0, 2))]}
            cls = "layered"
        cases.append({"cls": cls, "ice": spec})
    cases.append({"cls": "repo-suite", "files": ["tests/test_ice_model.py", "tests/test_ray_tracing.py", "tests/test_kernel.py"]})      # the repository's own tests under the contract
    return cases


def _check_exponential(v, ice, rng, lo, hi):
    n0, k, a = ice.n0, ice.k, ice.a
    # gradient == d index / dz (centred finite difference with its own round-off term)
    m = min(1.0, (hi - lo) / 4)
    for z in rng.uniform(lo + m, hi - m, size=6):
        h = 1e-3 * m
        fd = (ice.index(z + h) - ice.index(z - h)) / (2 * h)
        g = np.asarray(ice.gradient(float(z)), float)
        v.check(g.shape == (3,) and g[0] == 0 and g[1] == 0, "gradient is vertical", g=g.tolist())
        v.close("gradient == finite difference", abs(g[2] - fd), 1e-5 * abs(fd) + 8 * EPS * n0 / h, z=float(z), grad=float(g[2]), fd=float(fd))
    # inverse
    zs = np.concatenate((rng.uniform(lo, hi, size=8), [lo, hi, np.nextafter(lo, 0), np.nextafter(hi, -1)]))
    ns = ice.index(zs)
    inv_arr = ice.depth_with_index(ns)
    for z, n, za in zip(zs, ns, inv_arr):
        zi = ice.depth_with_index(float(n))
        v.check(zi == za or (np.isnan(zi) and np.isnan(za)), "depth_with_index scalar == array", n=float(n), scalar=float(zi), array=float(za))
        gap = n0 - n
        bound = 8 * EPS * n0 / (a * gap) + 1e-9 if gap > 0 else float("inf")
        # the result must be a depth of the ice (up to the same conditioning bound at the edges), never inf/nan
        slack = bound if np.isfinite(bound) else 0.0
        inside = bool(np.isfinite(zi) and lo - slack <= zi <= hi + slack)
        v.check(inside, "depth_with_index result inside the valid range", n=float(n), z=float(z), result=float(zi))
        if inside:
            # where the index is saturated (indistinguishable from n0) any depth inside the range is accepted
            if np.isfinite(bound):
                v.close("depth_with_index inverts index", abs(zi - z), bound, z=float(z), n=float(n), result=float(zi))
    # clamping outside the ice's index range, including exactly the edge values and the asymptote
    n_top, n_bot = float(ice.index(hi)), float(ice.index(lo))
    for n in (0.5, n_top - 1e-3, np.nextafter(n_top, 0), n_top, n_bot, np.nextafter(n_bot, 9), n0, n0 + 0.1, 5.0):
        zi = ice.depth_with_index(float(n))
        za = ice.depth_with_index(np.array([n]))[0]
        # exactly on an edge value the logarithm is evaluated: allow its conditioning bound, never inf/nan
        gap = n0 - n
        slack = 8 * EPS * n0 / (a * gap) + 1e-9 if gap > 0 else 0.0
        v.check(lo - slack <= zi <= hi + slack, "depth_with_index clamps to the range (scalar)", n=float(n), result=float(zi), range=[lo, hi])
        v.check(lo - slack <= za <= hi + slack, "depth_with_index clamps to the range (array)", n=float(n), result=float(za), range=[lo, hi])
        if n < n_top:
            v.check(zi == hi and za == hi, "index below range -> upper edge", n=float(n), result=float(zi))
        if n > n_bot:
            v.check(zi == lo and za == lo, "index above range -> lower edge", n=float(n), result=float(zi))


def _check_atten(v, ice, rng, lo, hi):
    z = rng.uniform(lo, hi, size=3)
    f = 10 ** rng.uniform(3, 10, size=5)
    f[int(rng.integers(0, 5))] = [1e9, np.nextafter(1e9, 0), 75e6, 1.5e9, 3e8][int(rng.integers(0, 5))]
    M = np.asarray(ice.attenuation_length(z, f))
    ok = v.check(M.shape == (3, 5), "attenuation matrix shape", shape=list(M.shape))
    if not ok:
        return
    v.check(bool(np.all(np.isfinite(M)) and np.all(M > 0)), "attenuation length finite and positive", min=float(np.min(M)))
    for i in range(3):
        row = np.asarray(ice.attenuation_length(float(z[i]), f))
        if v.check(row.shape == (5,), "attenuation row shape", shape=list(row.shape)):
            v.close("attenuation row == matrix row", np.max(np.abs(row - M[i]) / M[i]), 1e-12, z=float(z[i]))
        for j in range(5):
            sc = ice.attenuation_length(float(z[i]), float(f[j]))
            if v.check(np.ndim(sc) == 0, "attenuation scalar shape", ndim=int(np.ndim(sc))):
                v.close("attenuation scalar == matrix entry", abs(float(sc) - M[i, j]) / M[i, j], 1e-12, z=float(z[i]), f=float(f[j]), scalar=float(sc), matrix=float(M[i, j]))
    # integer-typed frequency / depth arrays denote the same frequencies / depths
    fi = np.array([100000000, 300000000, 750000000, 1000000000, 2000000000], dtype=np.int64)
    zi = np.array(sorted({int(x) for x in z}), dtype=np.int64)
    zi = zi[(zi >= lo) & (zi <= hi)]
    for zz_ in ([float(z[0])] + [float(x) for x in zi[:1]]):
        want = np.asarray(ice.attenuation_length(zz_, fi.astype(float)), float)
        got = np.asarray(ice.attenuation_length(zz_, fi), float)
        if v.check(got.shape == want.shape, "attenuation row shape (integer frequencies)", shape=list(got.shape)):
            v.close("attenuation for integer-typed frequencies == for the same frequencies as floats", float(np.max(np.abs(got - want) / want)), 1e-12, z=zz_, got=got[:3].tolist(), want=want[:3].tolist())
    if len(zi) >= 2:
        want = np.asarray(ice.attenuation_length(zi.astype(float), fi.astype(float)), float)
        got = np.asarray(ice.attenuation_length(zi, fi), float)
        if v.check(got.shape == want.shape, "attenuation matrix shape (integer depths and frequencies)", shape=list(got.shape)):
            v.close("attenuation for integer-typed depths and frequencies == for the same values as floats", float(np.max(np.abs(got - want) / want)), 1e-12)
        ni_f = np.asarray(ice.index(zi.astype(float)), float)
        ni_i = np.asarray(ice.index(zi), float)
        v.close("index of integer-typed depths == index of the same depths as floats", float(np.max(np.abs(ni_f - ni_i))), 1e-15)
    for j in range(5):
        col = np.asarray(ice.attenuation_length(z, float(f[j])))
        if v.check(col.shape == (3,), "attenuation column shape", shape=list(col.shape)):
            v.close("attenuation column == matrix column", np.max(np.abs(col - M[:, j]) / M[:, j]), 1e-12, f=float(f[j]))


def run_case(case):
    if case["cls"] == "repo-suite":
        from vt import suite
        v_ = V()
        rep = suite.run("c16", case["files"])
        evals = sum(sum(x for x in d.values() if isinstance(x, int)) for d in rep.get("contract_evaluations", {}).values())
        v_.events += evals
        for f_ in rep.get("contract_failures", []):
            v_.check(False, "contract holds while the repository's own tests run", test=f_["test"], message=f_["message"])
        sample_ = {"workload": "repository test files under the contract", "files": rep.get("files"), "tests_collected": rep.get("collected"), "contract_evaluations": evals, "pytest": rep.get("tail")}
        if rep.get("returncode") != 0 and not rep.get("contract_failures"):
            return v_.result(decided=False, nontrivial=False, sample=sample_, skip="repository tests did not pass under the plugin")
        return v_.result(decided=True, nontrivial=evals >= 50, sample=sample_)
    try:
        return _run_case(case)
    except PostBroken as e:
        v_ = V()
        v_.check(False, "contract: depth_with_index returns one finite depth per index inside the valid range", contract=str(e)[:300], ice=case.get("ice"))
        return v_.result(decided=True, nontrivial=True, sample={"ice": case.get("ice")})


def _run_case(case):
    v = V()
    rng = case_rng(case)
    ice = gen.make_ice(case["ice"])
    kind = case["ice"]["kind"]
    if kind == "antarctic" and "n0" in case["ice"] and rng.random() < 0.4:
        # the same model object was first another ice (and was used as such), then re-parameterised by attribute assignment
        import pyrex.ice_model as im_
        sp = case["ice"]
        ice = im_.AntarcticIce()
        probe = np.array([-5.0, -150.0, -1200.0])
        try:
            ice.index(probe), ice.index(-33.0), ice.gradient(-50.0), ice.attenuation_length(-100.0, 3e8)
            ice.depth_with_index(1.5), ice.depth_with_index(np.array([1.4, 1.6, 1.77])), ice.depth_with_index(1.0), ice.depth_with_index(2.5)
        except Exception:       # noqa: BLE001
            pass
        ice.n0, ice.k, ice.a = sp["n0"], sp["k"], sp["a"]
        ice.valid_range = tuple(sp.get("range", (-2850, 0)))
        if "above" in sp:
            ice.index_above = sp["above"]
        if "below" in sp:
            ice.index_below = sp["below"]
    if kind == "layered":
        bnd = [case["ice"]["layers"][0]["range"][1]] + [l["range"][0] for l in case["ice"]["layers"]]
        lo, hi = bnd[-1], bnd[0]
    else:
        lo, hi = ice.valid_range
    # ---- scalar == array, declared outside indices
    zs = np.array([hi + 5, hi + 1e-9, np.nextafter(hi, 1), hi, np.nextafter(hi, -1), rng.uniform(lo, hi), rng.uniform(lo, hi),
                   rng.uniform(lo, hi), np.nextafter(lo, 0), lo, np.nextafter(lo, -1e9), lo - 1e-6, lo - 100.0])
    if kind == "layered":
        inner = np.array(bnd[1:-1])
        zs = np.concatenate((zs, inner, np.nextafter(inner, 0), np.nextafter(inner, -1e9)))
    arr = np.asarray(ice.index(zs))
    v.check(arr.shape == zs.shape, "index(array) shape", shape=list(arr.shape))
    for z, a_ in zip(zs, arr):
        s = ice.index(float(z))
        v.check(np.ndim(s) == 0 and (a_ == s or (a_ is None and s is None)), "index scalar == array element", z=float(z), array=a_, scalar=s)
        if kind == "layered":
            continue    # 0-d arrays are not demanded of the layered dispatcher (it iterates its argument)
        s0 = ice.index(np.array(float(z)))  # 0-d array
        v.check(np.ndim(s0) == 0 and s0 == s, "index 0-d array == scalar", z=float(z), zero_d=s0, scalar=s)
    above, below = ice.index_above, ice.index_below
    for z, a_ in zip(zs, arr):
        if z > hi:
            v.check(a_ == above, "index above the range == index_above", z=float(z), got=a_, declared=above)
        if z < lo:
            v.check(a_ == below, "index below the range == index_below", z=float(z), got=a_, declared=below)
    if kind != "layered":
        if "above" in case["ice"] and case["ice"]["above"] is None:
            v.check(above == ice.index(hi), "undeclared index_above == index at the top", above=above)
        for z in (hi + 1, hi, lo, lo - 1, 0.5 * (lo + hi)):
            v.check(bool(ice.contains((3.0, -4.0, z))) == (lo <= z <= hi), "contains <=> depth in the valid range", z=float(z))
    # ---- increases with depth inside the range
    zz = np.sort(np.concatenate((rng.uniform(lo, hi, size=40), [lo, hi])))
    if kind != "layered":
        nn = np.asarray(ice.index(zz), float)
        v.check(bool(np.all(np.diff(nn) <= 0)), "index never decreases with depth", worst=float(np.max(np.diff(nn))))
        if kind != "uniform":
            sep = ice.k * ice.a * np.exp(ice.a * zz[:-1]) * np.diff(zz)   # lower bound of the true decrease
            strict = sep > 64 * EPS * ice.n0
            v.check(bool(np.all(np.diff(nn)[strict] < 0)), "index strictly increases with depth where distinguishable",
                    n_strict=int(strict.sum()))
            _check_exponential(v, ice, rng, lo, hi)
        else:
            g = np.asarray(ice.gradient(float(rng.uniform(lo, hi))), float)
            v.check(g.shape == (3,) and not np.any(g), "uniform ice has zero gradient", g=g.tolist())
        _check_atten(v, ice, rng, lo, hi)
    else:
        specs = case["ice"]["layers"]
        b = list(ice.boundaries)
        v.check(b == sorted(b, reverse=True) and len(b) == len(specs) + 1 and b == bnd, "layer boundaries descend from the top", boundaries=b)
        probes = np.concatenate((rng.uniform(lo, hi, size=12), inner, np.nextafter(inner, 0), np.nextafter(inner, -1e9), [hi, lo]))
        many = ice.layer_at_depth(list(probes))
        for z, lay_m in zip(probes, many):
            # the layer that contains z: half-open (lower, upper], the bottom edge belongs to the last layer
            want = None
            for j, s in enumerate(specs):
                if s["range"][0] < z <= s["range"][1] or (j == len(specs) - 1 and z == s["range"][0]):
                    want = j
                    break
            lay = ice.layer_at_depth(float(z))
            v.check(lay is ice.layers[want], "layered ice dispatches to the layer containing the depth", z=float(z), want=want,
                    got=ice.layers.index(lay) if lay in ice.layers else None)
            v.check(lay_m is lay, "layer_at_depth array == scalar", z=float(z))
            v.check(ice.index(float(z)) == ice.layers[want].index(float(z)), "layered index == the containing layer's index", z=float(z))
            v.check(bool(ice.contains((0, 0, float(z)))), "layered ice contains depths inside its stack", z=float(z))
        v.check(not ice.contains((0, 0, hi + 1)) and not ice.contains((0, 0, lo - 1)), "layered ice excludes depths outside its stack")
        if len(ice.layers) >= 3:
            # the same stack with one inner layer taken out: depths in the gap belong to no layer and must not be answered with another layer's ice
            from pyrex.custom.layered_ice import LayeredIce
            j_out = int(rng.integers(1, len(ice.layers) - 1))
            kept = [l_ for j_, l_ in enumerate(ice.layers) if j_ != j_out]
            try:
                gapped = LayeredIce(kept, index_above=1.0, index_below=None)
            except ValueError:
                gapped = None          # a constructor that refuses stacks with gaps is fine as well
            if gapped is not None:
                g_lo, g_hi = ice.layers[j_out].valid_range
                for z in rng.uniform(g_lo, g_hi, size=4):
                    if not (g_lo < z < g_hi):
                        continue
                    for what, fn in (("layer_at_depth", gapped.layer_at_depth), ("index", gapped.index), ("layer_at_depth (list)", lambda q: gapped.layer_at_depth([q]))):
                        try:
                            got = fn(float(z))
                            v.check(False, "a depth in a gap between layers is not dispatched to a layer that does not contain it", z=float(z), accessor=what, gap=[float(g_lo), float(g_hi)], returned=repr(got)[:80])
                        except ValueError:
                            v.check(True, "a depth in a gap between layers is not dispatched to a layer that does not contain it")
                for l_ in kept:
                    z = float(rng.uniform(*l_.valid_range))
                    if l_.valid_range[0] < z <= l_.valid_range[1]:
                        v.check(gapped.layer_at_depth(z) is l_ and gapped.index(z) == l_.index(z), "layered ice dispatches to the layer containing the depth", z=z, stack="with a gap")
        for lay in ice.layers:
            if hasattr(lay, "n0"):
                _check_exponential(v, lay, rng, *lay.valid_range)
            _check_atten(v, lay, rng, *lay.valid_range)
    # ---- models without an inverse say so instead of returning a depth (documented: "invalid for uniform ice")
    if kind in ("uniform", "layered"):
        for arg in (1.5, np.array([1.4, 1.6])):
            try:
                got = ice.depth_with_index(arg)
                v.check(False, "ice models whose index cannot be inverted refuse depth_with_index", kind=kind, returned=repr(got)[:80])
            except NotImplementedError:
                v.check(True, "ice models whose index cannot be inverted refuse depth_with_index")
    # ---- declared outside indices can be re-declared on the used object and are honoured from then on
    for new_above, new_below in ((1.23, 1.95), (None, None), (1.0, 2.1)):
        ice.index_above, ice.index_below = new_above, new_below
        top_n, bot_n = ice.index(float(hi)), ice.index(float(lo))
        want_a = new_above if new_above is not None else top_n
        want_b = new_below if new_below is not None else bot_n
        got_a, got_b = np.asarray(ice.index(np.array([hi + 3.0, hi + 1e-9]))), np.asarray(ice.index(np.array([lo - 3.0, lo - 1e-6])))
        v.check(ice.index_above == want_a and bool(np.all(got_a == want_a)) and ice.index(float(hi + 3.0)) == want_a, "a re-declared index_above is what the model reports above its range",
                declared=new_above, reported=ice.index_above, index_above_range=[x if x is None else float(x) for x in got_a])
        v.check(ice.index_below == want_b and bool(np.all(got_b == want_b)) and ice.index(float(lo - 3.0)) == want_b, "a re-declared index_below is what the model reports below its range",
                declared=new_below, reported=ice.index_below, index_below_range=[x if x is None else float(x) for x in got_b])
        if kind != "layered":
            inside = float(0.5 * (lo + hi))
            v.check(ice.index(inside) == ice.index(np.array([inside]))[0], "re-declaring the outside indices leaves the inside alone")
    sample = {"ice": case["ice"], "probe_depths": [float(z) for z in zs[:6]], "index": [x if x is None else float(x) for x in arr[:6]]}
    return v.result(decided=True, nontrivial=v.events > 40, sample=sample)


def fx_inverse_inf(case, viol):
    """Fixed finding (suppresses nothing; kept so that the evidence names it)."""
    return viol["clause"].startswith("depth_with_index") and viol["detail"].get("result") == float("-inf")
