"""C18 — uniform and layered tracers reduce to image geometry and to the one-medium tracer.

Monitor: UniformRayTracer(...).solutions and LayeredRayTracer(...).solutions[i].paths are recorded.  Oracles: the closed-form
mirror-image construction for uniform ice (straight segment to the k-fold mirrored receiver), the Snell / mirror chain at
every junction of a layered solution, and the unsplit one-medium tracer for a medium split at arbitrary depths.
"""
import numpy as np
from vt.util import V, EPS, case_rng, rng_for
from vt import gen
from vt.checks.c01 import cancellation_bound

PROPERTY = "C18"
TITLE = "Uniform and layered tracers reduce to image geometry / the one-medium tracer"
TECHNIQUE = ('runtime monitoring: recorded uniform and layered solutions decided by mirror-image geometry, chain continuity / Snell / mirror laws at every junction, and comparison of a split medium with the unsplit one; decoy media with the same boundaries traced first')
ANCHORS = ["pyrex.ray_tracing:UniformRayTracePath._points", "pyrex.ray_tracing:UniformRayTracer._reflected_path", "pyrex.ray_tracing:UniformRayTracer.solutions",
           "pyrex.custom.layered_ice.ray_tracing:LayeredRayTracer._trace_path", "pyrex.custom.layered_ice.ray_tracing:LayeredRayTracer.solutions",
           "pyrex.custom.layered_ice.ray_tracing:LayeredRayTracePath.path_length", "pyrex.custom.layered_ice.ray_tracing:LayeredRayTracePath.tof",
           "pyrex.custom.layered_ice.ray_tracing:LayeredRayTracePath.fresnel"]
RULE = ("'uniform' case = UniformIce with random range and boundary indices, endpoints with any x,y offset, max_reflections 0..3, "
        "every solution compared with the mirror-image construction; 'stack' case = 2-4 genuinely different uniform / "
        "exponential layers, every junction of every solution checked for continuity and Snell / mirror law; 'split' case "
        "= a homogeneous or exponential medium split at 1-3 arbitrary depths (internal boundaries declared with no index "
        "above/below), compared with the unsplit tracer; non-trivial = at least one solution compared; distinct = hash of the case")
ASSUMPTIONS = ["split media declare their internal boundaries with index_above/below=None (with a declared index the sub-layer legitimately reflects)",
               "split vs unsplit directions of a solution inside the declared beta_tolerance window may differ by 3 beta_tolerance / n"]
BUDGET = {"quick": 600, "thorough": 5400}
CASE_TIMEOUT = {"quick": 240, "thorough": 480}
C = 299792458.0


def gen_cases(tier, seed):
    rng = rng_for(PROPERTY, seed)
    n = 240 if tier == "quick" else 6000
    out = []
    for i in range(n):
        kind = ["uniform", "uniform", "stack", "split-exp", "split-uniform", "stack"][i % 6]
        c = {"cls": kind, "salt": int(rng.integers(0, 2**31))}
        rho = float(10 ** rng.uniform(0, 3.5))
        ph = float(rng.uniform(0, 2 * np.pi))
        if kind == "uniform":
            zlo = -float(rng.uniform(100, 3000))
            c.update(ice={"kind": "uniform", "n": float(rng.uniform(1.2, 1.9)), "range": [zlo, 0.0], "above": [1.0, 1.3, 1.0, None][int(rng.integers(0, 4))], "below": [1.5, 2.0, 1.5, None][int(rng.integers(0, 4))]},
                     max_reflections=int(rng.integers(0, 4)))
        elif kind == "stack":
            zlo = -1000.0
            nl = int(rng.integers(2, 5))
            edges = [0.0] + sorted((-rng.uniform(50, 900, size=nl - 1)).tolist(), reverse=True) + [zlo]
            layers = []
            for j in range(nl):
                r = [edges[j + 1], edges[j]]
                if rng.random() < 0.5:
                    layers.append({"kind": "uniform", "n": float(rng.uniform(1.3, 1.8)), "range": r, "above": None, "below": None})
                else:
                    layers.append({"kind": "antarctic", "n0": float(rng.uniform(1.6, 1.85)), "k": float(rng.uniform(0.2, 0.45)), "a": float(rng.uniform(0.008, 0.02)), "range": r, "above": None, "below": None})
            c.update(ice={"kind": "layered", "layers": layers, "above": [1.0, 1.0, 1.0, None][int(rng.integers(0, 4))], "below": [None, None, 1.5, 2.2][int(rng.integers(0, 4))]})
            rho = float(10 ** rng.uniform(0.5, 3))
            c["on_boundary"] = [None, None, None, "from", "to"][int(rng.integers(0, 5))]
            c["edges"] = edges
        else:
            zlo = -1000.0
            ns = int(rng.integers(1, 4))
            edges = [0.0] + sorted((-rng.uniform(20, 980, size=ns)).tolist(), reverse=True) + [zlo]
            if kind == "split-exp":
                base = {"kind": "antarctic", "n0": float(rng.uniform(1.6, 1.85)), "k": float(rng.uniform(0.2, 0.45)), "a": float(rng.uniform(0.008, 0.02))} if rng.random() < 0.5 else {"kind": "antarctic", "n0": 1.78, "k": 0.43, "a": 0.0132}
            else:
                base = {"kind": "uniform", "n": float(rng.uniform(1.3, 1.8))}
            layers = []
            for j in range(len(edges) - 1):
                layers.append(dict(base, range=[edges[j + 1], edges[j]], above=1.0 if j == 0 else None, below=None))
            c.update(ice={"kind": "layered", "layers": layers, "above": 1.0, "below": None}, full=dict(base, range=[zlo, 0.0], above=1.0, below=None))
            rho = float(10 ** rng.uniform(0.5, 3))
        if rng.random() < 0.12:
            rho = 0.0           # exactly vertically aligned endpoints
        a = [float(rng.uniform(-1e3, 1e3)), float(rng.uniform(-1e3, 1e3)), float(rng.uniform(zlo + 1, -1))]
        b = [a[0] + rho * np.cos(ph), a[1] + rho * np.sin(ph), float(rng.uniform(zlo + 1, -1))]
        if kind in ("split-uniform", "stack") and rng.random() < 0.12 and rho > 0:
            b[2] = a[2]                 # endpoints at exactly the same depth (a horizontal direct ray)
            c["cls"] = kind + ":equal-depth"
        elif kind.startswith("split") and rng.random() < 0.3:
            # shallow endpoints a few hundred metres apart: the second solution bounces off the surface, mostly under total internal
            # reflection, so its Fresnel factors are complex numbers of modulus one
            rho = float(10 ** rng.uniform(1.3, 2.7))
            a[2] = -float(rng.uniform(5, 60))
            b = [a[0] + rho * np.cos(ph), a[1] + rho * np.sin(ph), -float(rng.uniform(5, 200))]
            c["cls"] = kind + ":shallow"
        if rng.random() < 0.1:
            # nearly coincident endpoints (0.1 micrometre ... 5 mm apart, i.e. below 1e-5 of the coordinates themselves), any orientation
            u_ = rng.normal(size=3)
            u_ /= np.linalg.norm(u_)
            sep_ = float(10 ** rng.uniform(-7, -2.3))
            b = [a[0] + sep_ * u_[0], a[1] + sep_ * u_[1], float(min(-1e-3, max(zlo + 1e-3, a[2] + sep_ * u_[2])))]
            c["cls"] = kind + ":nearly-coincident"
            c["separation"] = sep_
        if c.get("on_boundary"):
            # an endpoint exactly on an inner boundary between two layers
            zb_ = float(c["edges"][1 + int(rng.integers(0, len(c["edges"]) - 2))])
            if c["on_boundary"] == "from":
                a[2] = zb_
            else:
                b[2] = zb_
        if kind == "uniform" and rng.random() < 0.3 and zlo < -20:
            # the same kind of points given as whole numbers in Python ints / int arrays
            a = [int(round(a[0])), int(round(a[1])), int(min(-1, max(np.ceil(zlo) + 1, round(a[2]))))]
            b = [int(round(b[0])), int(round(b[1])), int(min(-1, max(np.ceil(zlo) + 1, round(b[2]))))]
            if a == b:
                b[0] += 7
            c["endpoint_type"] = ["list of int", "tuple of int", "int ndarray"][int(rng.integers(0, 3))]
        c.update({"from": a, "to": b})
        out.append(c)
    return out


def run_uniform(case, v):
    import pyrex.ray_tracing as rt
    ice = gen.make_ice(case["ice"])
    n = float(case["ice"]["n"])
    zlo = float(case["ice"]["range"][0])
    Rm = case["max_reflections"]
    UT = type("UT", (rt.UniformRayTracer,), {"max_reflections": Rm})
    a, b = np.array(case["from"], float), np.array(case["to"], float)
    rho = float(np.hypot(*(b - a)[:2]))
    et = case.get("endpoint_type")
    rep = {"list of int": list, "tuple of int": tuple, "int ndarray": lambda x: np.array(x, dtype=int)}.get(et)
    tr = UT(rep(case["from"]), rep(case["to"]), ice) if rep else UT(a, b, ice)
    sols = list(tr.solutions)
    geo = {"from": a.tolist(), "to": b.tolist(), "n": n, "range": [zlo, 0.0], "max_reflections": Rm, "endpoint_type": et or "float ndarray"}
    v.check(bool(tr.exists) == (len(sols) > 0), "exists <=> the solution list is non-empty", **geo)
    # a surface without a declared index outside cannot reflect: a path that starts upwards with k reflections touches the top when
    # k >= 1 and the bottom when k >= 2 (the other way round when it starts downwards)
    has_top, has_bot = case["ice"].get("above") is not None, case["ice"].get("below") is not None
    allowed = {(0, None)}
    for k_ in range(1, Rm + 1):
        if has_top and (k_ < 2 or has_bot):
            allowed.add((k_, True))
        if has_bot and (k_ < 2 or has_top):
            allowed.add((k_, False))
    geo.update(index_above=case["ice"].get("above"), index_below=case["ice"].get("below"))
    v.check(len(sols) == len(allowed), "one direct path and two paths per allowed number of reflections (none off a surface without an index)", n_solutions=len(sols), expected=len(allowed), **geo)
    H = -zlo
    seen = set()
    for p in sols:
        pts = np.asarray(p._points, float)
        k = len(pts) - 2                      # reflections = interior points of the polyline
        em, rd = np.asarray(p.emitted_direction, float), np.asarray(p.received_direction, float)
        if k == 0:
            zimg = b[2]
            up = None
        else:
            up = em[2] > 0
            d1 = (0 - a[2]) if up else (a[2] - zlo)
            final_up = up if k % 2 == 0 else (not up)
            dlast = (b[2] - zlo) if final_up else (0 - b[2])
            tot = d1 + (k - 1) * H + dlast
            zimg = a[2] + (tot if up else -tot)
        seen.add((k, None if up is None else bool(up)))
        L = float(np.sqrt(rho ** 2 + (zimg - a[2]) ** 2))
        e = np.array([b[0] - a[0], b[1] - a[1], zimg - a[2]]) / L
        rcv = e.copy()
        if k % 2 == 1:
            rcv[2] = -rcv[2]
        det = dict(geo, reflections=k, first_leg_up=None if up is None else bool(up), L_image=L, L=float(p.path_length))
        v.close("length == straight segment to the mirrored receiver", abs(p.path_length - L) / L, 1e-9, **det)
        v.close("time of flight == n L / c", abs(p.tof - n * L / C) / (n * L / C), 1e-9, **det)
        v.close("emitted direction == direction to the mirrored receiver", float(np.max(np.abs(em - e))), 1e-9, **det)
        v.close("received direction == mirrored image direction", float(np.max(np.abs(rd - rcv))), 1e-9, **det)
        v.check(bool(np.allclose(pts[0], a, rtol=0, atol=1e-9) and np.allclose(pts[-1], b, rtol=0, atol=1e-9)), "path starts at the source and ends at the receiver", **det)
        for q in pts[1:-1]:
            v.check(bool(q[2] == 0 or q[2] == zlo), "reflection points lie on the ice boundaries", point=q.tolist(), **det)
            v.check(bool((q[2] == 0 and has_top) or (q[2] == zlo and has_bot) or (q[2] != 0 and q[2] != zlo)), "no path reflects off a surface that has no index outside", point=q.tolist(), **det)
            # ... and on the unfolded image line: horizontal position proportional to the vertical distance travelled
        if k > 0:
            trav = np.concatenate(([0.0], np.cumsum(np.abs(np.diff(pts[:, 2])))))
            tot_v = trav[-1]
            for q, tv in zip(pts[1:-1], trav[1:-1]):
                want = a[:2] + (b[:2] - a[:2]) * (tv / tot_v) if tot_v > 0 else a[:2]
                v.close("reflection points lie on the image line", float(np.max(np.abs(q[:2] - want))), 1e-9 * max(1.0, rho), point=q.tolist(), **det)
    v.check(len(seen) == len(sols), "the solutions are the distinct (reflection count, first direction) families", families=sorted(map(str, seen)), **geo)
    return {"geometry": geo, "solutions": len(sols)}, len(sols) > 0


def check_chain(v, p, a, b, geo):
    subs = list(p.paths)
    v.check(float(np.max(np.abs(np.asarray(subs[0].from_point) - a))) <= 1e-9 and float(np.max(np.abs(np.asarray(subs[-1].to_point) - b))) <= 1e-9,
            "layered solution starts at the source and ends at the receiver", **geo)
    nvw = False
    for s1, s2 in zip(subs[:-1], subs[1:]):
        gap = float(np.max(np.abs(np.asarray(s1.to_point) - np.asarray(s2.from_point))))
        v.close("sub-paths form a continuous chain", gap, 1e-6, **geo)
        n1 = float(s1.ice.index(float(s1.to_point[2])))
        n2 = float(s2.ice.index(float(s2.from_point[2])))
        d1, d2 = np.asarray(s1.received_direction, float), np.asarray(s2.emitted_direction, float)
        beta = n1 * np.hypot(d1[0], d1[1])
        btol = max(float(getattr(s1, "beta_tolerance", 0.005)), float(getattr(s2, "beta_tolerance", 0.005)))
        grad = any(hasattr(sp.ice, "k") for sp in subs)       # a gradient leg anywhere in the solution
        btol = max([btol] + [float(getattr(sp, "beta_tolerance", 0.005)) for sp in subs])
        in_window = grad and beta <= 1.05 * btol
        nvw = nvw or in_window
        rel = 0.0
        for sp in subs:          # cancellation noise of any gradient leg moves every junction point of the solution
            li = sp.ice
            if hasattr(li, "k"):
                e_ = np.asarray(sp.emitted_direction, float)
                b_ = float(li.index(float(sp.from_point[2])) * np.hypot(e_[0], e_[1]))
                cb_ = cancellation_bound(float(li.n0), float(li.k), float(li.a), b_, min(float(sp.from_point[2]), float(sp.to_point[2])), float(getattr(sp, "uniformity_factor", 0.99999)))
                rel = max(rel, cb_ / max(float(sp.path_length), 1e-9))
        det = dict(geo, depth=float(s1.to_point[2]), n1=n1, n2=n2, beta=float(beta), near_vertical_window=bool(in_window), legs=len(subs),
                   kinds=[type(s1).__name__, type(s2).__name__], cancellation_rel=rel)
        # conditioning: the direction of a straight leg is taken from its end points, so the junction positions' own agreement
        # (measured <= 2e-6 of the path length) is divided by the length of the shorter of the two legs that meet here
        short = min(float(s1.path_length), float(s2.path_length))
        jt = 2e-5 + (2e-6 * float(p.path_length) / short * max(n1, n2) if short > 0 else 0.0)
        if np.sign(d1[2]) == np.sign(d2[2]):
            sn = abs(n1 * np.hypot(d1[0], d1[1]) - n2 * np.hypot(d2[0], d2[1]))
            v.close("Snell's law at a transmission", float(sn), jt, shorter_leg_m=short, **det)      # measured <= 4e-6 for legs of ordinary length (junction points are rebuilt per layer)
            if not in_window:
                v.close("azimuth kept at a transmission", float(abs(d1[0] * d2[1] - d1[1] * d2[0])), 1e-6 + (jt - 2e-5), **det)
        else:
            v.close("mirror law at a reflection", float(max(abs(d1[0] - d2[0]), abs(d1[1] - d2[1]), abs(d1[2] + d2[2]))), jt, shorter_leg_m=short, **det)
    v.close("path length == sum of the sub-path lengths", abs(sum(float(s.path_length) for s in subs) - float(p.path_length)) / float(p.path_length), 1e-12, **geo)
    v.close("time of flight == sum of the sub-path times", abs(sum(float(s.tof) for s in subs) - float(p.tof)) / float(p.tof), 1e-12, **geo)
    return nvw


def trace_decoy(case, a, b):
    """Another layered ice with the same boundaries but other index profiles, traced first between the same endpoints
    (same process): must leave no trace in what the case's own ice reports."""
    from pyrex.custom.layered_ice import LayeredRayTracer
    spec = dict(case["ice"], layers=[dict(l) for l in case["ice"]["layers"]])
    for l in spec["layers"]:
        if l["kind"] == "antarctic":
            l["n0"], l["k"], l["a"] = l.get("n0", 1.78) * 0.97, l.get("k", 0.43) * 0.8, l.get("a", 0.0132) * 1.3
        elif l["kind"] == "uniform":
            l["n"] = l["n"] * 0.95 + 0.02
    try:
        for q in LayeredRayTracer(a, b, gen.make_ice(spec)).solutions:
            q.path_length, q.tof
    except Exception:       # noqa: BLE001 -- the decoy medium is not what this case decides
        pass


def no_ray_twice(v, sols, bound_of=None, **det):
    """The same ray (same length, same launch and arrival direction) must not be reported as two solutions.
    bound_of(solution): absolute error bound of the closed-form integrals for that solution (mechanism observable of KF-C18-cancellation)."""
    for i in range(len(sols)):
        for j in range(i + 1, len(sols)):
            p, q = sols[i], sols[j]
            same = (abs(float(p.path_length) - float(q.path_length)) <= 1e-9 * max(float(p.path_length), 1e-9)
                    and float(np.max(np.abs(np.asarray(p.emitted_direction, float) - np.asarray(q.emitted_direction, float)))) <= 1e-9
                    and float(np.max(np.abs(np.asarray(p.received_direction, float) - np.asarray(q.received_direction, float)))) <= 1e-9)
            v.check(not same, "no ray is reported twice", i=i, j=j, L=float(p.path_length), n_solutions=len(sols),
                    cancellation_bound_m=float(bound_of(p)) if (bound_of is not None and same) else 0.0, **det)


def run_stack(case, v):
    from pyrex.custom.layered_ice import LayeredRayTracer
    ice = gen.make_ice(case["ice"])
    a, b = np.array(case["from"], float), np.array(case["to"], float)
    geo = {"from": a.tolist(), "to": b.tolist(), "layers": [[l["kind"][:3], l["range"]] for l in case["ice"]["layers"]]}
    if int(a[0] * 1e6) % 2 == 0:
        trace_decoy(case, a, b)
        geo["traced_after_a_medium_with_the_same_boundaries"] = True
    sols = list(LayeredRayTracer(a, b, ice).solutions)
    def noise_bound_of_legs(q_):
        # sum of the closed-form error bounds of the solution's gradient legs (the same observable as in check_chain)
        tot_ = 0.0
        for sp in getattr(q_, "paths", []):
            li = sp.ice
            if hasattr(li, "k"):
                e_ = np.asarray(sp.emitted_direction, float)
                b_ = float(li.index(float(sp.from_point[2])) * np.hypot(e_[0], e_[1]))
                tot_ += cancellation_bound(float(li.n0), float(li.k), float(li.a), b_, min(float(sp.from_point[2]), float(sp.to_point[2])), float(getattr(sp, "uniformity_factor", 0.99999)))
        return tot_
    no_ray_twice(v, sols, bound_of=noise_bound_of_legs, **{"from": a.tolist(), "to": b.tolist()})
    top_, bot_ = float(case["ice"]["layers"][0]["range"][1]), float(case["ice"]["layers"][-1]["range"][0])
    for p in sols:
        check_chain(v, p, a, b, geo)
        # the outer surfaces reflect only when an index is declared beyond them
        for s1, s2 in zip(p.paths[:-1], p.paths[1:]):
            d1, d2 = np.asarray(s1.received_direction, float), np.asarray(s2.emitted_direction, float)
            zj = float(s1.to_point[2])
            if np.sign(d1[2]) != np.sign(d2[2]) and (abs(zj - top_) < 1e-9 or abs(zj - bot_) < 1e-9):
                declared = case["ice"].get("above") if abs(zj - top_) < 1e-9 else case["ice"].get("below")
                v.check(declared is not None, "no layered path reflects off an outer surface that has no index beyond it", depth=zj, index_above=case["ice"].get("above"), index_below=case["ice"].get("below"), **geo)
                fr_ = np.abs(np.array(p.fresnel, dtype=complex))
                v.check(bool(np.all(np.isfinite(fr_))), "Fresnel factors of a layered path are finite", fresnel=[float(x) for x in fr_], **geo)
    return {"geometry": geo, "solutions": len(sols), "legs": [len(p.paths) for p in sols]}, len(sols) > 0


def run_split(case, v):
    import pyrex.ray_tracing as rt
    from pyrex.custom.layered_ice import LayeredRayTracer
    ice = gen.make_ice(case["ice"])
    full = gen.make_ice(case["full"])
    a, b = np.array(case["from"], float), np.array(case["to"], float)
    exp = case["full"]["kind"] == "antarctic"
    geo = {"from": a.tolist(), "to": b.tolist(), "medium": case["full"], "split_at": [l["range"][0] for l in case["ice"]["layers"][:-1]], "rho": float(np.hypot(*(b - a)[:2]))}
    if exp:
        ref = list(rt.SpecializedRayTracer(a, b, full).solutions)
        n0, k_, a_ = float(full.n0), float(full.k), float(full.a)
    else:
        UT = type("UT", (rt.UniformRayTracer,), {"max_reflections": 1})
        ref = [p for p in UT(a, b, full).solutions if len(p._points) == 2 or p.emitted_direction[2] > 0]      # direct + surface reflection (the bottom has no index)
    if int(a[0] * 1e6) % 2 == 0:
        trace_decoy(case, a, b)
        geo["traced_after_a_medium_with_the_same_boundaries"] = True
    lay = list(LayeredRayTracer(a, b, ice).solutions)
    def noise_bound(q_):
        if not exp:
            return 0.0
        e_ = np.asarray(q_.emitted_direction, float)
        return cancellation_bound(n0, k_, a_, float(full.index(float(a[2])) * np.hypot(e_[0], e_[1])), min(a[2], b[2]), 0.99999) * (1 + len(q_.paths))
    no_ray_twice(v, lay, bound_of=noise_bound, **{"from": a.tolist(), "to": b.tolist()})
    for q in lay:
        check_chain(v, q, a, b, geo)
    def found_with_variants(L_, em_, slack_):
        """Mechanism observables of the known finding "fragile root finding" (see KF-C02-layered-angle-scan): is the counterpart
        there with a 20 times finer launch-angle scan, or with the receiver moved by 0.1 micrometre along the line of sight?"""
        out_ = []
        FT = type("FineScan", (LayeredRayTracer,), {"_angle_checks": 20 * (LayeredRayTracer._angle_checks - 1) + 1})
        u_ = np.array([b[0] - a[0], b[1] - a[1], 0.0])
        u_ = u_ / max(np.linalg.norm(u_), 1e-300) if np.any(u_) else np.array([1.0, 0.0, 0.0])
        for label, mk_ in (("20x finer scan", lambda: FT(a, b, ice)), ("receiver +0.1 um", lambda: LayeredRayTracer(a, b + 1e-7 * u_, ice)), ("receiver -0.1 um", lambda: LayeredRayTracer(a, b - 1e-7 * u_, ice))):
            try:
                for q2 in mk_().solutions:
                    if abs(float(q2.path_length) - L_) / L_ < 1e-3 + slack_ and float(np.max(np.abs(np.asarray(q2.emitted_direction) - em_))) < 0.05 + slack_:
                        out_.append(label)
                        break
            except Exception:       # noqa: BLE001
                pass
        return out_

    used = set()
    for j, p in enumerate(ref):
        cand = [(abs(float(q.path_length) - float(p.path_length)) / float(p.path_length), i) for i, q in enumerate(lay)]
        if not cand:
            cb0 = 0.0
            if exp:
                e0_ = np.asarray(p.emitted_direction, float)
                # the same closed forms are evaluated inside every sub-layer: error bound of the cancellation mechanism for this ray
                cb0 = cancellation_bound(n0, k_, a_, float(full.index(float(a[2])) * np.hypot(e0_[0], e0_[1])), min(a[2], b[2]), float(getattr(p, "uniformity_factor", 0.99999)))
            v.check(False, "every solution of the unsplit medium has a layered counterpart", unsplit=len(ref), layered=len(lay), solution=j, L=float(p.path_length), cancellation_bound_m=cb0,
                    counterpart_found_with=found_with_variants(float(p.path_length), np.asarray(p.emitted_direction, float), 0.0), **geo)
            continue
        d, i = min(cand)
        q = lay[i]
        em = np.asarray(p.emitted_direction, float)
        L = float(p.path_length)
        cb, nv = 0.0, False
        if exp:
            beta = float(full.index(float(a[2])) * np.hypot(em[0], em[1]))
            uf = float(getattr(p, "uniformity_factor", 0.99999))
            cb = cancellation_bound(n0, k_, a_, beta, min(a[2], b[2]), uf) * (1 + len(q.paths))
            nv = beta <= 1.05 * float(getattr(p, "beta_tolerance", 0.005))
        same_start = float(np.max(np.abs(np.asarray(q.emitted_direction) - em))) < 0.05 + 3 * cb / L
        found_with = None
        if not (d < 1e-3 + 3 * cb / L and same_start):
            found_with = found_with_variants(L, em, 3 * cb / L)
        if not v.check(d < 1e-3 + 3 * cb / L and same_start, "every solution of the unsplit medium has a layered counterpart", unsplit=len(ref), layered=len(lay), solution=j,
                       closest_relative_length_difference=float(d), L=L, cancellation_bound_m=cb, counterpart_found_with=found_with, **geo):
            continue
        used.add(i)
        det = dict(geo, solution=j, L=L, cancellation_bound_m=cb, legs=len(q.paths), near_vertical_window=bool(nv))
        v.close("split medium reproduces the unsplit path length", d, 1e-6, **det)
        v.close("split medium reproduces the unsplit time of flight", abs(float(q.tof) - float(p.tof)) / float(p.tof), 1e-6, **det)
        dtol = 1e-6 + (3 * 0.005 / float(full.index(0.0)) if nv else 0.0)
        v.close("split medium reproduces the unsplit directions", max(float(np.max(np.abs(np.asarray(q.emitted_direction) - em))), float(np.max(np.abs(np.asarray(q.received_direction) - np.asarray(p.received_direction))))), dtol, **det)
        fr = np.abs(np.array(q.fresnel, dtype=complex))
        fp = np.abs(np.array(p.fresnel, dtype=complex))
        v.close("split medium transmits with unit amplitude (same Fresnel magnitude as the unsplit path)", float(np.max(np.abs(fr - fp))), 1e-6 + (1e-3 if nv else 0.0), layered=fr.tolist(), unsplit=fp.tolist(), **det)
        # ... and with the same phase: under total internal reflection the factors are complex
        frc, fpc = np.array(q.fresnel, dtype=complex), np.array(p.fresnel, dtype=complex)
        v.close("split medium reproduces the unsplit Fresnel factors (complex value, not only modulus)", float(np.max(np.abs(frc - fpc))), 1e-6 + (1e-2 if nv else 0.0) + 3 * cb / L,
                layered=[str(x) for x in frc], unsplit=[str(x) for x in fpc], **det)
    loose = []
    for p in ref:
        cbp = 0.0
        if exp:
            e_ = np.asarray(p.emitted_direction, float)
            cbp = cancellation_bound(n0, k_, a_, float(full.index(float(a[2])) * np.hypot(e_[0], e_[1])), min(a[2], b[2]), float(getattr(p, "uniformity_factor", 0.99999))) * 4
        loose.append((float(p.path_length), 1e-3 * float(p.path_length) + 3 * cbp))
    for i, q in enumerate(lay):
        if i not in used and not any(abs(float(q.path_length) - Lp) <= slack for Lp, slack in loose):
            fr = np.abs(np.array(q.fresnel, dtype=complex))
            cbq = 0.0
            if exp:
                # measured for this very solution: the absolute error bound of the closed-form integrals at its launch angle and depth
                eq_ = np.asarray(q.emitted_direction, float)
                cbq = cancellation_bound(n0, k_, a_, float(full.index(float(a[2])) * np.hypot(eq_[0], eq_[1])), min(a[2], b[2]), 0.99999) * (1 + len(q.paths))
            v.close("extra layered solutions (reflections off an artificial boundary) carry zero amplitude", float(np.max(fr)), 1e-9, legs=len(q.paths), L=float(q.path_length),
                    cancellation_bound_m=float(cbq), **geo)
    return {"geometry": geo, "unsplit_solutions": len(ref), "layered_solutions": len(lay)}, len(ref) > 0


def run_case(case):
    v = V()
    fn = {"uniform": run_uniform, "stack": run_stack, "split-exp": run_split, "split-uniform": run_split}[case["cls"].split(":")[0]]
    sample, nontrivial = fn(case, v)
    return v.result(decided=True, nontrivial=nontrivial, sample=sample)


def kf_cancellation(case, viol):
    d = viol["detail"]
    if viol["clause"] == "every solution of the unsplit medium has a layered counterpart":
        # the closed-form integrals of a deep, near-vertical leg have no digit left (error bound above 1e-3 of the path): r(theta) is
        # NaN there (logarithm of a non-positive number) and the layered tracer finds nothing
        return d.get("cancellation_bound_m", 0.0) > 1e-3 * max(d.get("L", 1.0), 1e-9)
    if viol["clause"] in ("Snell's law at a transmission", "mirror law at a reflection", "azimuth kept at a transmission", "sub-paths form a continuous chain"):
        rel = d.get("cancellation_rel", 0.0)
        return rel > 1e-3 or (rel > 0 and d.get("deviation", 1e9) <= d["tolerance"] + 3 * rel)
    if viol["clause"] == "every solution of the unsplit medium has a layered counterpart":
        return d.get("cancellation_bound_m", 0.0) / max(d.get("L", 1.0), 1e-9) > 1e-3
    if viol["clause"].startswith("extra layered solutions") or viol["clause"] == "no ray is reported twice":
        # a "solution" whose closed-form integrals carry an error bound above its whole path length is a root of round-off noise
        # (endpoints a few micrometres apart deep in a gradient layer: r(theta) is noise of 1e-6 ... 1e-2 m around rho ~ 1e-7 m)
        return d.get("cancellation_bound_m", 0.0) > max(d.get("L", 1.0), 1e-300)
    if not viol["clause"].startswith("split medium") or "deviation" not in d:
        return False
    rel = d.get("cancellation_bound_m", 0.0) / max(d.get("L", 1.0), 1e-9)
    return rel > 1e-3 or d["deviation"] <= d["tolerance"] + 2 * rel


def kf_near_vertical_multileg_snell(case, viol):
    """Near-vertical multi-leg layered solution: the root lies on the beta_tolerance discontinuity of a gradient sub-layer."""
    d = viol["detail"]
    return viol["clause"] in ("Snell's law at a transmission", "mirror law at a reflection") and d.get("near_vertical_window") is True


def fx_layered_reflection_start_angle(case, viol):
    return viol["clause"] == "mirror law at a reflection" and "SpecializedRayTracePath" in str(viol["detail"].get("kinds"))


def fx_uniform_reflection_points(case, viol):
    return case["cls"].split(":")[0] == "uniform"


def kf_layered_angle_scan(case, viol):
    """see KF-C02-layered-angle-scan: roots inside one interval of the fixed launch-angle scan are missed."""
    # only when the measured observables establish the mechanism: the missing counterpart appears with a finer scan or a nudged receiver
    return viol["clause"] == "every solution of the unsplit medium has a layered counterpart" and bool(viol["detail"].get("counterpart_found_with"))


def fx_clamped_z_uniform(case, viol):
    return viol["clause"] == "every solution of the unsplit medium has a layered counterpart" and viol["detail"].get("layered") == 0 and not viol["detail"].get("counterpart_found_with")
