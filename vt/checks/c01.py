"""C01 — every ray-trace solution of a gradient-index tracer is a true ray joining its endpoints.

Monitor: the tracer is constructed at the public boundary and every returned path's emitted_direction,
received_direction, path_length, tof and direct flag are recorded.  Oracle: the arc-length ray ODE (vt/oracles/rayode.py)
launched from the source in the reported direction for exactly the reported length: (1) it arrives at the receiver,
(2) its optical time equals tof, (3) its direction there equals received_direction (and the azimuth is the
source->receiver azimuth), (4) n sin(theta) is the same at both ends, (5) direct paths do not turn or reflect, indirect
ones do, and the first solution turns only if the oracle confirms that no non-turning ray connects the points.
"""
import numpy as np
from vt.util import V, EPS, case_rng, rng_for
from vt import gen
from vt.oracles import rayode

PROPERTY = "C01"
TITLE = "Every ray-trace solution is a true ray"
TECHNIQUE = ('runtime monitoring: recorded tracer solutions (fresh and re-pointed tracer objects) decided by an independent arc-length integrator of the ray equation (arrival point, path length, time of flight, n sin(theta)); sys.monitoring reach and line counters on the anchors')
ANCHORS = ["pyrex.ray_tracing:SpecializedRayTracePath._int_terms", "pyrex.ray_tracing:SpecializedRayTracePath._distance_integral",
           "pyrex.ray_tracing:SpecializedRayTracePath._pathlen_integral", "pyrex.ray_tracing:SpecializedRayTracePath._tof_integral",
           "pyrex.ray_tracing:BasicRayTracer._get_launch_angle", "pyrex.ray_tracing:BasicRayTracer.angle_search",
           "pyrex.ray_tracing:BasicRayTracePath.z_integral", "pyrex.ray_tracing:BasicRayTracer._direct_r", "pyrex.ray_tracing:BasicRayTracer._indirect_r"]
RULE = ("one case = (ice: Antarctic / AraSim / Greenland defaults or random n0,k,a,range; tracer: Specialized or Basic with "
        "dz in {0.25,1,4}; endpoint pair of class generic / shallow / deep / near-vertical / exactly vertical (rho = 0) / shadow-boundary / "
        "almost-horizontal / steep, any x,y offset and azimuth); non-trivial = the tracer returned at least one solution "
        "and the ODE oracle decided every clause for it; distinct = hash of the case")
ASSUMPTIONS = ["scipy solve_ivp DOP853 at rtol 1e-11 is accurate to 1e-8 m over 10 km",
               "n(z) of the oracle is rebuilt from the ice's public n0, k, a; the top of the valid range is a specular mirror",
               "analytic tracer tolerance: 0.05 m + 1e-5 L + 2 a (1 - uniformity_factor) L^2 (curvature the code neglects where it treats the ice as uniform); "
               "inside the declared beta_tolerance window: 1.2 beta_tolerance/n_min L; numeric tracer: 0.8 dz + 1e-4 L + the arc it skips within dz/10 of a turning/reflection point",
               "numeric tracer: the two depths are at least 2 dz apart (fewer than two trapezoid steps is outside its domain)"]
BUDGET = {"quick": 600, "thorough": 5400}
CASE_TIMEOUT = {"quick": 120, "thorough": 240}
CLASSES = ["generic", "shallow", "deep", "near-vertical", "shadow-boundary", "almost-horizontal", "steep", "exactly-vertical", "generic", "outside", "beyond-direct-range", "beyond-direct-range"]


def gen_cases(tier, seed):
    rng = rng_for(PROPERTY, seed)
    n = 400 if tier == "quick" else 12000
    out = []
    for i in range(n):
        cls = CLASSES[i % len(CLASSES)]
        ice = gen.ice_family_spec(rng)
        zmin = -2850.0 if ice["kind"] in ("antarctic", "arasim") and "range" not in ice else (-3000.0 if ice["kind"] == "greenland" else ice["range"][0])
        z0, z1 = rng.uniform(zmin, 0), rng.uniform(zmin, 0)
        rho = 10 ** rng.uniform(-1, 3.8)
        if cls == "shadow-boundary":
            # shadow zones exist where the index still varies: both points well above the depth below which the code treats the ice as uniform
            pars = {"antarctic": (1.78, 0.43, 0.0132), "arasim": (1.78, 0.43, 0.0132), "greenland": (1.775, 0.448, 0.0247)}.get(ice["kind"]) if "n0" not in ice else (ice["n0"], ice["k"], ice["a"])
            z_uni = np.log(1e-5 * pars[0] / pars[1]) / pars[2]
            z0, z1 = rng.uniform(max(zmin, 0.7 * z_uni), -1), rng.uniform(max(zmin, 0.7 * z_uni), -1)
        if cls == "shallow":
            z0, z1 = rng.uniform(max(zmin, -200), 0), rng.uniform(max(zmin, -200), 0)
        elif cls == "deep":
            z0, z1 = rng.uniform(zmin, 0.6 * zmin), rng.uniform(zmin, 0.6 * zmin)
        elif cls == "near-vertical":
            rho = rng.uniform(0.01, 30)
        elif cls == "almost-horizontal":
            z1 = z0 + rng.uniform(-1, 1) * 1e-3
        elif cls == "steep":
            rho = 10 ** rng.uniform(-1, 2)
            z1 = z0 + float(rng.choice([-1, 1])) * rng.uniform(200, 1500)
        elif cls == "exactly-vertical":
            rho = 0.0          # receiver exactly above / below the source (launch angle exactly 0 or pi)
            if abs(z1 - z0) < 5:
                z1 = z0 + 50.0 if z0 < -60 else z0 - 50.0
        z0, z1 = float(np.clip(z0, zmin, -0.01)), float(np.clip(z1, zmin, -0.01))
        if cls == "outside":
            # one endpoint (either role, either the higher or the lower one) outside the ice's valid range: documented as "no paths"
            zout = float(rng.choice([rng.uniform(0.01, 50.0), zmin - rng.uniform(0.01, 100.0)]))
            if rng.random() < 0.5:
                z0 = zout
            else:
                z1 = zout
        ph = rng.uniform(0, 2 * np.pi)
        a = [float(rng.uniform(-2e3, 2e3)), float(rng.uniform(-2e3, 2e3)), z0]
        b = [a[0] + float(rho * np.cos(ph)), a[1] + float(rho * np.sin(ph)), z1]
        tracer = "specialized" if rng.random() < 0.7 else "basic"
        dz = float(rng.choice([0.25, 1.0, 4.0])) if tracer == "basic" else 1.0
        if tracer == "basic" and abs(z1 - z0) < 2 * dz and cls != "almost-horizontal":
            dz = 0.25 if abs(z1 - z0) >= 0.5 else dz      # the z-trapezoid needs at least a couple of steps between the depths
            if abs(z1 - z0) < 2 * dz:
                tracer, dz = "specialized", 1.0
        decoy = None
        if rng.random() < 0.25:
            # the tracer object is first used for another pair of points and then re-pointed at this case's endpoints
            dzs = (float(np.clip(rng.uniform(zmin, -0.01), zmin, -0.01)), float(np.clip(rng.uniform(zmin, -0.01), zmin, -0.01)))
            if abs(dzs[0] - dzs[1]) < 10:
                dzs = (dzs[0], float(np.clip(dzs[0] + 100 if dzs[0] < -150 else dzs[0] - 100, zmin, -0.01)))
            decoy = {"from": [a[0] + float(rng.uniform(-300, 300)), a[1] + float(rng.uniform(-300, 300)), dzs[0]],
                     "to": [b[0] + float(rng.uniform(-300, 300)), b[1] + float(rng.uniform(-300, 300)), dzs[1]], "which": int(rng.integers(0, 3))}
        out.append({"cls": cls, "ice": ice, "from": a, "to": b, "tracer": tracer, "dz": dz, "decoy": decoy})
    return out


def make_tracer(case, a, b, ice):
    import pyrex.ray_tracing as rt
    if case["tracer"] == "specialized":
        return rt.SpecializedRayTracer(a, b, ice)
    return rt.BasicRayTracer(a, b, ice, dz=case["dz"])


def cancellation_bound(n0, k, a, beta, z, uf):
    """Metres of error that the catastrophic cancellation in  n0 n_z - beta^2 - sqrt(alpha gamma)  can cause.

    The three terms are O(n0^2) and are evaluated to ~eps n0^2, while their exact sum is
    t = (beta k e^{az})^2 / (n0 n_z - beta^2 + sqrt(alpha gamma)); the logarithm of the computed value is therefore off
    by up to eps n0^2 / t (saturating at ~40 once no digit is left), and it enters the radial-distance integral with the
    factor beta / (a sqrt(alpha)).  The closed forms are used down to z_uniform, below which the ice is treated as uniform.
    """
    z_uni = np.log((1 - uf) * n0 / k) / a
    z = max(z, z_uni)
    nz = n0 - k * np.exp(a * z)
    al, ga = n0 * n0 - beta * beta, max(nz * nz - beta * beta, 0.0)
    t = (beta * k * np.exp(a * z)) ** 2 / (n0 * nz - beta * beta + np.sqrt(al * ga))
    dlog = min(8 * EPS * n0 * n0 / max(t, 1e-300), 40.0)
    # the same logarithm enters the path-length and time integrals with the factor n0 / (a sqrt(alpha))
    return float((n0 + beta) / (a * np.sqrt(max(al, 1e-300))) * dlog)


def bracket_end_observables(rt, error_text=""):
    """Mechanism observables of KF-*-basic-max-angle-nan, measured on the failing tracer: the launch angle at which the root
    finder met NaN (parsed from scipy's message), the ends of the root brackets (max_angle, peak_angle), and the numeric
    r-functions of the direct and of the indirect ray at that angle and a hair below it."""
    import re
    out = {}
    try:
        m = re.search(r"x=([0-9.eE+-]+) is NaN", error_text or "")
        x = float(m.group(1)) if m else float(rt.max_angle)
        out["nan_at_angle"] = x
        out["max_angle"] = float(rt.max_angle)
        try:
            out["peak_angle"] = None if rt.peak_angle is None else float(rt.peak_angle)
        except Exception:       # noqa: BLE001
            out["peak_angle"] = None
        for name, fn in (("direct", rt._direct_r), ("indirect", rt._indirect_r)):
            out["r_%s_at_that_angle" % name] = float(fn(x))
            out["r_%s_just_below" % name] = float(fn(x * (1 - 1e-9)))
            out["r_%s_at_half" % name] = float(fn(0.5 * x))
    except Exception as e:       # noqa: BLE001
        out["bracket_observables_error"] = type(e).__name__
    return out


def nan_confined_to_bracket_end(d):
    """The NaN the root finder met sits exactly on an end of a root bracket (max_angle or peak_angle), and the r-function that is
    NaN there is finite a hair below it and in the middle of the bracket."""
    import math
    x = d.get("nan_at_angle")
    if x is None:
        return False
    ends = [e for e in (d.get("max_angle"), d.get("peak_angle")) if e is not None]
    if not any(abs(x - e) <= 1e-12 * max(1.0, abs(e)) for e in ends):
        return False
    for name in ("direct", "indirect"):
        a_, b_, c_ = d.get("r_%s_at_that_angle" % name), d.get("r_%s_just_below" % name), d.get("r_%s_at_half" % name)
        if a_ is not None and math.isnan(a_) and b_ is not None and math.isfinite(b_) and c_ is not None and math.isfinite(c_):
            return True
    return False


def run_case(case):
    v = V()
    ice = gen.make_ice(case["ice"])
    n0, k_, a_ = float(ice.n0), float(ice.k), float(ice.a)
    nfun, dn = rayode.profile(n0, k_, a_)
    ztop, zmin = float(ice.valid_range[1]), float(ice.valid_range[0])
    a, b = np.array(case["from"], float), np.array(case["to"], float)
    if case["cls"] == "shadow-boundary":
        # move the receiver horizontally to within 2 % of the largest range that still has solutions (bisection on `exists`)
        u = (b - a)[:2]
        u = u / max(np.linalg.norm(u), 1e-300)
        lo, hi = 0.1, 2e4
        try:
            if make_tracer(case, a, np.array([a[0] + u[0] * lo, a[1] + u[1] * lo, b[2]]), ice).exists:
                for _ in range(14):
                    mid = np.sqrt(lo * hi)
                    if make_tracer(case, a, np.array([a[0] + u[0] * mid, a[1] + u[1] * mid, b[2]]), ice).exists:
                        lo = mid
                    else:
                        hi = mid
                r_ = lo * (1 - 0.02 * case_rng(case).random())
                b = np.array([a[0] + u[0] * r_, a[1] + u[1] * r_, b[2]])
        except Exception:
            pass        # the final construction below reports it
    if case["cls"] == "beyond-direct-range" and abs(b[2] - a[2]) > 1.0:
        # the receiver is moved to 0.05 % ... 8 % beyond the largest range a never-turning ray can cover between the two depths
        # (oracle: the ray grazing the upper depth): the first solution turns over just above the upper endpoint there
        u = (b - a)[:2]
        u = u / max(np.linalg.norm(u), 1e-300) if np.any(u) else np.array([1.0, 0.0])
        rmax_ = rayode.max_direct_range(nfun, min(a[2], b[2]), max(a[2], b[2]))
        if np.isfinite(rmax_) and 1.0 < rmax_ < 2e4:
            r_ = rmax_ * (1 + float(10 ** case_rng(case).uniform(-3.3, -1.5)))
            b = np.array([a[0] + u[0] * r_, a[1] + u[1] * r_, b[2]])
    rho = float(np.hypot(*(b - a)[:2]))
    z0, z1 = float(a[2]), float(b[2])
    geo = {"ice": [n0, k_, a_, [zmin, ztop]], "from": a.tolist(), "to": b.tolist(), "rho": rho, "tracer": case["tracer"], "dz": case["dz"],
           "sat0": bool(n0 - nfun(z0) < 32 * EPS * n0), "sat1": bool(n0 - nfun(z1) < 32 * EPS * n0)}
    if case.get("decoy"):
        # a tracer object used before for other endpoints and then re-pointed must behave like a fresh one
        dc = case["decoy"]
        first = [np.array(dc["from"], float) if dc["which"] in (0, 2) else a, np.array(dc["to"], float) if dc["which"] in (1, 2) else b]
        rt = make_tracer(case, first[0], first[1], ice)
        try:
            [(q.path_length, q.tof, q.emitted_direction, q.received_direction) for q in rt.solutions]
            rt.exists
        except Exception:       # noqa: BLE001 -- the decoy pair is not what this case decides
            pass
        if dc["which"] in (0, 2):
            rt.from_point = a
        if dc["which"] in (1, 2):
            rt.to_point = b
        geo["reused_after"] = {"from": first[0].tolist(), "to": first[1].tolist()}
    else:
        rt = make_tracer(case, a, b, ice)
    if case["tracer"] == "basic":
        # observable of a mechanism of the numeric tracer, measured on the real ice model (see kf_basic_turning_depth_unresolved)
        try:
            geo["turn_depth_error"] = float(max(abs(float(ice.depth_with_index(ice.index(z))) - z) for z in (z0, z1)))
            geo["z_turn_proximity"] = float(rt.z_turn_proximity)
        except Exception:       # noqa: BLE001
            pass
    try:
        sols = list(rt.solutions)
        ex = bool(rt.exists)
    except Exception as e:
        if case["tracer"] == "basic":
            geo.update(bracket_end_observables(rt, str(e)))
        v.check(False, "tracer reports solutions or none for in-range points (no exception)", error=type(e).__name__ + ": " + str(e)[:120], **geo)
        return v.result(decided=True, nontrivial=False, sample=geo)
    v.check(ex == (len(sols) > 0), "exists <=> the solution list is non-empty", exists=ex, n=len(sols), **geo)
    if case["cls"] == "outside":
        v.check(not ex and not sols, "a pair with an endpoint outside the ice's valid range gets no ray", exists=ex, n=len(sols), **geo)
        return v.result(decided=True, nontrivial=True, sample=geo)
    v.check(len(sols) in (0, 2), "a gradient-index tracer reports no solution or two", n=len(sols), **geo)
    sample = dict(geo, solutions=[])
    if not sols:
        return v.result(decided=True, nontrivial=False, sample=sample)
    az = np.arctan2(b[1] - a[1], b[0] - a[0])
    decided_all = True
    for j, p in enumerate(sols):
        L, tof = float(p.path_length), float(p.tof)
        em, rd = np.array(p.emitted_direction, float), np.array(p.received_direction, float)
        beta = float(nfun(z0) * np.hypot(em[0], em[1]))
        btol = float(getattr(p, "beta_tolerance", 0.005))
        uf = float(getattr(p, "uniformity_factor", 0.99999))
        nv = beta <= 1.02 * btol
        canc = cancellation_bound(n0, k_, a_, beta, min(z0, z1), uf)
        # how close the launch is to the largest angle for which the ray still turns below the surface (link_range window)
        zl = min(z0, z1)
        max_angle_gap = float(np.arcsin(min(1.0, nfun(ztop) / nfun(zl))) - np.arcsin(min(1.0, beta / nfun(zl))))
        # the analytic tracer's own max_angle is the launch angle (at the lower endpoint) of the ray that turns over exactly at the
        # upper endpoint; within link_range = 1e-6 rad below it _indirect_r is a straight line instead of the true r(theta)
        zh = max(z0, z1)
        link_gap = float(np.arcsin(min(1.0, nfun(zh) / nfun(zl))) - np.arcsin(min(1.0, beta / nfun(zl))))
        link_window_m = 0.0
        if case["tracer"] == "specialized" and not p.direct and 0 <= link_gap < 2e-6 and zh < ztop:
            # mechanism bound, measured on the profile itself: over that window the true range varies by the horizontal extent of the
            # arc between the upper endpoint's depth and the turning point of the ray launched link_range below max_angle
            b_link = nfun(zl) * np.sin(np.arcsin(min(1.0, nfun(zh) / nfun(zl))) - 1e-6)
            if n0 - b_link > 0:
                zt_link = np.log((n0 - b_link) / k_) / a_
                link_window_m = float(2.5 * np.sqrt(2 * max(zt_link - zh, 0.0) * nfun(zh) / abs(dn(zh))) + 1.0)
        det = dict(geo, solution=j, direct_flag=bool(p.direct), L=L, tof=tof, beta=beta, near_vertical=bool(nv), cancellation_bound_m=canc, max_angle_gap=max_angle_gap, link_gap=link_gap, link_window_m=link_window_m)
        sane = np.isfinite(L) and np.isfinite(tof) and 0 < L <= 3 * (np.linalg.norm(b - a) + abs(z0) + abs(z1)) + 10
        if not v.check(bool(sane), "path length is finite and of the size of the geometry", **det):
            continue
        v.close("emitted/received directions are unit vectors", max(abs(np.linalg.norm(em) - 1), abs(np.linalg.norm(rd) - 1)), 1e-9, **det)
        if rho > 1e-6 * max(1.0, L) and np.hypot(em[0], em[1]) > 1e-9:
            d_az = max(abs((np.arctan2(em[1], em[0]) - az + np.pi) % (2 * np.pi) - np.pi) * np.hypot(em[0], em[1]),
                       abs((np.arctan2(rd[1], rd[0]) - az + np.pi) % (2 * np.pi) - np.pi) * np.hypot(rd[0], rd[1]))
            v.close("horizontal direction components point from source to receiver", float(d_az), 1e-9, **det)
        if case["tracer"] == "specialized":
            # treating n >= uniformity_factor * n0 as uniform changes cos^2(theta) = 1 - beta^2/n^2 by up to 2 (1 - uf): for a
            # nearly horizontal ray that is an angle of up to sqrt(c^2 + 2 (1 - uf)) - c, c = cos(theta) at the flatter end
            c_min = min(np.sqrt(max(1 - (beta / nfun(ze)) ** 2, 0.0)) for ze in (z0, z1))
            dang = float(np.sqrt(c_min ** 2 + 2 * (1 - uf)) - c_min)
            tol = (btol / nfun(ztop)) * L * 1.2 + 0.05 if nv else 0.05 + 1e-5 * L + 2 * a_ * (1 - uf) * L * L + 1.5 * dang * L
            ttol, dtol = (5e-3 if nv else 1e-4), (1e-2 if nv else 1e-4 + 2 * a_ * (1 - uf) * L + 1.5 * dang)
        else:
            # numeric tracer: z-trapezoid of step dz that stops dz/10 short of the turning point on both legs.  The arc it
            # skips next to a turning point at depth z_t (n(z_t) = beta) is ~2 sqrt(2 (dz/10) R_c) long, R_c = n/|dn/dz|
            skip = 0.0
            prox = case["dz"] / 10
            if not p.direct and beta > nfun(ztop):
                zt = np.log((n0 - beta) / k_) / a_
                skip = 2.5 * np.sqrt(2 * prox * beta / abs(dn(zt)))
            elif not p.direct:
                # reflected at the surface: the legs stop prox below it; path skipped ~ 2 prox / cos(theta_top), which near
                # grazing incidence is bounded by the turning-point expression evaluated at the surface
                cos_top = np.sqrt(max(1 - (beta / nfun(ztop)) ** 2, 0.0))
                skip = 2.5 * min(prox / max(cos_top, 1e-300), np.sqrt(2 * prox * nfun(ztop) / abs(dn(ztop))))
            # trapezoid end-point error for the convex integrand tan(theta): ~ dz tan(theta) at each end, bounded near grazing
            # incidence by the turning-point expression
            trap = 0.0
            for ze in (z0, z1):
                ne = nfun(ze)
                tan_e = beta / np.sqrt(max(ne * ne - beta * beta, 1e-300))
                trap += min(case["dz"] * tan_e, np.sqrt(2 * case["dz"] * ne / abs(dn(ze))))
            tan_max = max(beta / np.sqrt(max(nfun(ze) ** 2 - beta * beta, 1e-300)) for ze in (z0, z1))
            # mechanism observable of KF-C01-basic-leg-shorter-than-step: depth extents of the legs the z-trapezoid runs over; a leg
            # shorter than one step gets zero intervals and its length (extent / cos theta) is missing from L, tof and the arrival point
            try:
                spans = [abs(float(p.z1) - float(p.z0))] if p.direct else [abs(float(p.z_turn) - float(p.z_turn_proximity) - float(p.z0)), abs(float(p.z_turn) - float(p.z_turn_proximity) - float(p.z1))]
            except Exception:       # noqa: BLE001
                spans = []
            cos_min = min(np.sqrt(max(1 - (beta / nfun(ze)) ** 2, 1e-6)) for ze in (z0, z1, ztop if not p.direct and beta <= nfun(ztop) else z0))
            det["leg_depth_spans"] = spans
            det["dropped_leg_length_bound"] = float(sum(sp_ for sp_ in spans if sp_ < case["dz"]) / cos_min)
            tol = 0.8 * case["dz"] + 1e-4 * L + skip + trap + ((btol / nfun(ztop)) * L * 1.2 if nv else 0.0)
            ttol = max(3e-4 * case["dz"], 1e-4) + (5e-3 if nv else 0) + (skip + trap) / L
            dtol = (max(2e-3 * case["dz"], 1e-3) + (skip + trap) / L) * (1 + min(tan_max, 1e3)) + (1e-2 if nv else 0)
        try:
            r, z, T, dr, dzv, nr, nt = rayode.trace_to_length(nfun, dn, ztop, z0, em, L)
            # turning structure with slack: a turn/reflection within the position tolerance of the end is ambiguous
            slack = min(tol, 0.45 * L)
            e_lo = rayode.trace_to_length(nfun, dn, ztop, z0, em, L - slack)[5:]
            e_hi = rayode.trace_to_length(nfun, dn, ztop, z0, em, L + slack)[5:]
        except Exception as e:      # noqa: BLE001 -- the oracle failing is inconclusive, never a verdict
            decided_all = False
            sample["solutions"].append({"oracle_failed": type(e).__name__})
            continue
        miss = float(np.hypot(r - rho, z - z1))
        det.update(miss=miss, tol_m=float(tol), oracle_reflections=nr, oracle_turns=nt, events_before_window=int(sum(e_lo)), events_after_window=int(sum(e_hi)))
        v.close("launched in the emitted direction the ray arrives at the receiver", miss, tol, **det)
        v.close("time of flight == integral of n ds / c along the ray", abs(T - tof) / tof, ttol, oracle_tof=T, **det)
        if sum(e_lo) == sum(e_hi) and miss <= tol:
            ddir = float(np.hypot(dzv - rd[2], dr - np.hypot(rd[0], rd[1])))
            v.close("received direction == the ray's direction at the receiver", ddir, dtol, **det)
        snell = abs(nfun(z0) * np.hypot(em[0], em[1]) - nfun(z1) * np.hypot(rd[0], rd[1]))
        v.close("n sin(theta) is the same at launch and at reception", float(snell), 1e-9, **det)
        z_uni = np.log((1 - uf) * n0 / k_) / a_
        resolvable = max(z0, z1) > 0.8 * z_uni       # below z_uniform the code deliberately traces straight lines: turning is undefined there
        if miss <= tol and resolvable:       # the turning structure is only meaningful for a ray that is the reported ray
            if p.direct:
                v.check(sum(e_lo) == 0, "a path flagged direct neither turns nor reflects", **det)
            else:
                v.check(sum(e_hi) >= 1, "a path flagged indirect turns over or reflects off the surface", **det)
        sample["solutions"].append({"direct": bool(p.direct), "L": L, "miss_m": miss, "tol_m": float(tol), "dT_rel": abs(T - tof) / tof, "beta": beta})
    # ---- the first solution never turns over -- unless no non-turning ray exists at all (oracle-verified)
    first = sols[0]
    if not first.direct and max(z0, z1) > 0.8 * np.log((1 - float(getattr(first, "uniformity_factor", 0.99999))) * n0 / k_) / a_:
        rmax = rayode.max_direct_range(nfun, min(z0, z1), max(z0, z1))
        # the grazing-ray range is extremely sensitive to the index (the code itself treats n >= uf n0 as uniform), so the
        # clause is decided only clearly inside / clearly outside the direct range
        if rho < 0.5 * rmax:
            # a non-turning ray could connect the points, yet the first solution turns: a real violation
            v.check(False, "the first solution never turns over", oracle_max_direct_range=rmax, **dict(geo, no_direct_ray_exists=False))
        elif rho > 2 * rmax:
            # no non-turning ray exists at all (beyond the direct range, or equal depths): the property over-generalises;
            # reported through the oracle-verified known finding KF-C01-no-direct-ray-exists
            v.check(False, "the first solution never turns over", oracle_max_direct_range=rmax, **dict(geo, no_direct_ray_exists=True))
    return v.result(decided=decided_all, nontrivial=decided_all and len(sample["solutions"]) > 0, sample=sample, skip=None if decided_all else "oracle_failed")


# ------------------------------------------------------------------ known-finding classifiers (input + kind of deviation only)
def kf_saturated(case, viol):
    d = viol["detail"]
    return bool(d.get("sat0") and d.get("sat1"))


def kf_horizontal(case, viol):
    d = viol["detail"]
    return "from" in d and abs(d["from"][2] - d["to"][2]) < 1e-2


def kf_no_direct_ray_exists(case, viol):
    return viol["clause"] == "the first solution never turns over" and viol["detail"].get("no_direct_ray_exists") is True


def kf_link_range(case, viol):
    d = viol["detail"]
    if "max_angle_gap" in d and 0 <= d["max_angle_gap"] < 2e-6 and viol["clause"] in (
            "launched in the emitted direction the ray arrives at the receiver", "time of flight == integral of n ds / c along the ray",
            "received direction == the ray's direction at the receiver"):
        return True
    # launch measured inside the window below the tracer's own max_angle (turn-over at the upper endpoint), and the miss no larger
    # than the range the true r(theta) sweeps over that window
    return (d.get("tracer") == "specialized" and d.get("direct_flag") is False and 0 <= d.get("link_gap", -1.0) <= 1.0001e-6
            and viol["clause"] == "launched in the emitted direction the ray arrives at the receiver"
            and d.get("deviation", float("inf")) <= d.get("tolerance", 0.0) + d.get("link_window_m", 0.0))


def kf_cancellation(case, viol):
    """Loss of all digits in log_term_1 of the closed-form integrals (analytic tracer, small beta and/or deep endpoints):
    the deviation is explained when it does not exceed the tolerance plus the mechanism's own error bound."""
    d = viol["detail"]
    if d.get("tracer") != "specialized" or "cancellation_bound_m" not in d:
        return False
    cb, L = d["cancellation_bound_m"], max(d.get("L", 1.0), 1e-9)
    if cb > 0.05 * L and viol["clause"] in ("launched in the emitted direction the ray arrives at the receiver", "time of flight == integral of n ds / c along the ray",
                                            "received direction == the ray's direction at the receiver", "a path flagged direct neither turns nor reflects",
                                            "a path flagged indirect turns over or reflects off the surface"):
        # not a single digit of the closed-form integrals is left (the mechanism's own error bound exceeds 5 % of the path): the
        # launch angle the root finder returns is arbitrary, and so is everything about the ray that is launched with it
        return True
    if "deviation" not in d:
        return False
    if viol["clause"] == "launched in the emitted direction the ray arrives at the receiver":
        return d["deviation"] <= d["tolerance"] + cb
    if viol["clause"] in ("time of flight == integral of n ds / c along the ray", "received direction == the ray's direction at the receiver"):
        return d["deviation"] <= d["tolerance"] + cb / L
    return False


def kf_basic_turning_depth_unresolved(case, viol):
    """Numeric tracer, deep endpoints: the real depth_with_index(index(z)) misses z by more than the distance
    (z_turn_proximity) at which the numeric integrals stop short of the turning point, so the limits of the second leg are
    inverted, the r-function is negative at the end of the root bracket and brentq raises."""
    d = viol["detail"]
    return (d.get("tracer") == "basic" and viol["clause"].startswith("tracer reports solutions or none") and ("different signs" in d.get("error", "") or "NaN" in d.get("error", ""))
            and d.get("turn_depth_error", 0.0) > d.get("z_turn_proximity", float("inf")))


def kf_basic_leg_shorter_than_step(case, viol):
    """Numeric tracer: z_integral uses int(|dz_leg| / dz) trapezoid intervals, which is zero for a leg spanning less than one
    step in depth: path length and time of flight of such a solution are exactly 0."""
    d = viol["detail"]
    if d.get("tracer") != "basic":
        return False
    spans = d.get("leg_depth_spans") or ([abs(d["from"][2] - d["to"][2])] if "from" in d else [])
    if viol["clause"] == "path length is finite and of the size of the geometry":
        return bool(spans) and max(spans) < d.get("dz", 0.0) and d.get("L") == 0.0
    # one leg dropped: the ray is short by that leg's length (measured bound), and the time of flight by its share
    drop = d.get("dropped_leg_length_bound", 0.0)
    if drop > 0 and "deviation" in d:
        if viol["clause"] == "launched in the emitted direction the ray arrives at the receiver":
            return d["deviation"] <= d["tolerance"] + 1.05 * drop
        if viol["clause"] == "time of flight == integral of n ds / c along the ray":
            return d["deviation"] <= d["tolerance"] + 1.05 * drop / max(d.get("L", 1.0), 1e-9)
    return False


def kf_basic_max_angle_nan(case, viol):
    """Numeric tracer: the root bracket for the surface-side indirect ray ends exactly at max_angle, where rounding can push
    sin(theta) at the surface above 1 and the numeric r-function returns NaN; brentq then raises."""
    d = viol["detail"]
    confined = nan_confined_to_bracket_end(d)
    return (d.get("tracer") == "basic" and viol["clause"].startswith("tracer reports solutions or none")
            and "NaN" in d.get("error", "") and not (d.get("sat0") and d.get("sat1")) and confined)
