"""C06 — lazily evaluated signals and ray objects never serve stale values.

Monitor shape: operation *histories* with forced read-mutate-read patterns.  Two oracles per read:
 (a) a fresh object built from the same defining attributes must report the same values (staleness),
 (b) an eager evaluator written from the statement, fed by a *shadow* of the definition that the harness
     maintains from the operation history alone (never read back from the object's private lists), so that
     a consistently wrong definition update ("shift forgets to move the origin") is seen as well.
Ray tracers / paths: public attribute assignments followed by reads, compared with a freshly constructed object.
"""
import types
import numpy as np
import scipy.fft
from vt.util import V, case_rng, rng_for
from vt import gen

PROPERTY = "C06"
TITLE = "Lazy objects never stale"
TECHNIQUE = ('runtime monitoring: mutation histories on lazily evaluated objects checked after every step against a shadow model, its eager evaluation and a freshly constructed object; operands and argument arrays of earlier operations stay watched; icontract class invariant (no cached quantity differs from its recomputation), also evaluated while the repository tests run')
ANCHORS = ["pyrex.internal_functions:LazyMutableClass.__setattr__", "pyrex.internal_functions:LazyMutableClass._clear_cache",
           "pyrex.signals:FunctionSignal.values", "pyrex.signals:FunctionSignal.filter_frequencies",
           "pyrex.signals:FunctionSignal.set_buffers", "pyrex.signals:FunctionSignal.shift",
           "pyrex.ray_tracing:BasicRayTracer.solutions", "pyrex.ray_tracing:UniformRayTracer.solutions"]
RULE = ("one case = one history of 2-15 operations: for signals {read, shift, *=, /=, filter_frequencies, set_buffers("
        "leading/trailing/force), resample, with_times, + (either side, operands kept and re-read), copy, times=, times+=} on FunctionSignal / FFTThermalNoise / "
        "FullThermalNoise / AVZ / ZHS / ARZ Askaryan objects; for ray objects assignments of from_point/to_point/ice/dz on "
        "Specialized/Basic/Uniform tracers and of theta0/to_point/dz/direct on their paths, each followed by reads; "
        "non-trivial = the history contains at least one read-mutate-read pattern that was decided; distinct = hash of the case")
ASSUMPTIONS = ["for thermal-noise and Askaryan subclasses the defining function is taken from the object once, right after construction",
               "buffer sample counts within 1e-6 of an integer are accepted either way (set-valued ceil)",
               "in-place mutation of array elements (tracer.from_point[2] = ...) is not an attribute assignment and is not generated"]
BUDGET = {"quick": 400, "thorough": 3600}
CASE_TIMEOUT = {"quick": 120, "thorough": 300}


NEEDS_ICONTRACT = True
_STATE = {"inv_calls": 0, "inv_compared": 0, "busy": False}


class InvariantBroken(AssertionError):
    pass


def no_stale_cache(self):
    """Class invariant on the real lazily evaluated classes: every cached quantity equals what the same object computes once its
    cache is emptied (evaluated at every 5th public call on a shallow clone, so the object itself is not disturbed)."""
    if _STATE["busy"]:
        return True
    _STATE["inv_calls"] += 1
    if _STATE["inv_calls"] % 5:
        return True
    # icontract also checks around __delattr__, which the cache clearing itself uses: inside __setattr__ / _clear_cache the
    # object is legitimately in a transient state (new attribute, old cache not yet dropped)
    import sys
    fr_, depth_ = sys._getframe(1), 0
    while fr_ is not None and depth_ < 14:
        if fr_.f_code.co_name in ("_clear_cache", "__setattr__") and fr_.f_code.co_filename.endswith("internal_functions.py"):
            return True
        fr_, depth_ = fr_.f_back, depth_ + 1
    cached = {k: val for k, val in vars(self).items() if k.startswith("_lazy_")}
    if not cached:
        return True
    _STATE["busy"] = True
    try:
        import copy
        clone = copy.copy(self)
        for k in cached:
            clone.__dict__.pop(k, None)
        for k, val in cached.items():
            name = k[len("_lazy_"):]
            try:
                fresh = getattr(clone, name)
            except Exception:       # noqa: BLE001 -- not recomputable in this state: nothing to compare
                continue
            try:
                a_, b_ = np.asarray(val, float), np.asarray(fresh, float)
            except Exception:       # noqa: BLE001 -- lists of path objects and the like
                continue
            if a_.shape != b_.shape:
                return False
            _STATE["inv_compared"] += 1
            scale = max(float(np.max(np.abs(b_))) if b_.size else 0.0, 1e-300)
            if b_.size and not np.allclose(a_, b_, rtol=1e-9, atol=1e-12 * scale, equal_nan=True):
                return False
        return True
    finally:
        _STATE["busy"] = False


def setup():
    import icontract
    import pyrex.signals as sg
    import pyrex.ray_tracing as rt
    for cls in (sg.FunctionSignal, sg.FullThermalNoise, sg.FFTThermalNoise, rt.BasicRayTracer, rt.SpecializedRayTracer, rt.UniformRayTracer,
                rt.BasicRayTracePath, rt.SpecializedRayTracePath, rt.UniformRayTracePath):
        if not cls.__dict__.get("_vt_inv", False):
            # only around public calls: between an attribute assignment and the cache clearing that follows it inside
            # __setattr__ the object is legitimately in a transient state
            icontract.invariant(no_stale_cache, error=InvariantBroken, check_on=icontract.InvariantCheckEvent.CALL)(cls)
            cls._vt_inv = True


def gen_cases(tier, seed):
    rng = rng_for(PROPERTY, seed)
    n = 1500 if tier == "quick" else 40000
    out = []
    for i in range(n):
        r = i % 10
        if r < 5:
            cls = "function-signal"
        elif r < 7:
            cls = ["fft-noise", "full-noise"][r - 5]
        elif r == 7:
            cls = ["askaryan-avz", "askaryan-zhs", "askaryan-arz"][(i // 10) % 3]
        elif r == 8:
            cls = "ray-tracer"
        else:
            cls = "ray-path"
        out.append({"cls": cls, "N": int(rng.integers(8, 80)), "dt": float(rng.choice([1e-9, 0.5e-9, 0.37e-9])),
                    "t_start": float(rng.uniform(-50e-9, 50e-9)), "nops": int(rng.integers(2, 16))})
    out.append({"cls": "repo-suite", "files": ["tests/test_signals.py", "tests/test_askaryan.py", "tests/test_ray_tracing.py", "tests/test_antenna.py", "tests/test_kernel.py"]})
    return out


FUNCS = [lambda t: np.sin(2e8 * t), lambda t: np.exp(-(t / 3e-9) ** 2),
         lambda t: np.where(t > 0, 1.0, 0.0) * np.exp(-t / 5e-9), lambda t: float(np.cos(1e8 * t))]
RESPS = [lambda f: 1 / (1 + 1j * f / 2e8), lambda f: np.exp(-2j * np.pi * f * 2e-9),
         lambda f: np.where(np.abs(f) < 3.1e8, 1.0, 0.0) + 0j, lambda f: 0.5 + 0 * np.asarray(f)]


class Shadow:
    """The definition of a function-backed signal as the operation history says it must be."""

    def __init__(self, times, comps):
        self.times = np.array(times, float)
        self.comps = comps       # list of dict(f, t0, factor, filters, lead, trail)

    def copy(self):
        return Shadow(self.times.copy(), [dict(c, filters=list(c["filters"])) for c in self.comps])

    def set_buffers(self, leading, trailing, force):
        for c in self.comps:
            if leading is not None:
                c["lead"] = leading if force else max(leading, c["lead"])
            if trailing is not None:
                c["trail"] = trailing if force else max(trailing, c["trail"])


def _counts(buf, dt):
    """Candidate numbers of buffer samples: ceil(buf/dt), set-valued when buf/dt is within 1e-6 of an integer."""
    if buf <= 0:
        return [0]
    q = buf / dt
    near = round(q)
    if abs(q - near) < 1e-6 * max(1.0, near):
        return sorted({max(int(near), 0), int(near) + 1})
    return [int(np.ceil(q))]


def eager(sh, pick):
    """Sum over components of crop(filter_once(factor * f(buffer-extended grid - t0), product of filters))."""
    times = sh.times
    dt = times[1] - times[0]
    N = len(times)
    out = np.zeros(N)
    scale = 0.0
    for ci, c in enumerate(sh.comps):
        nbs, nas = _counts(c["lead"], dt), _counts(c["trail"], dt)
        nb = nbs[min(pick.get(("lead", c["lead"]), 0), len(nbs) - 1)]
        na = nas[min(pick.get(("trail", c["trail"]), 0), len(nas) - 1)]
        ext = np.concatenate((times[0] + np.arange(-nb, 0) * dt, times, times[-1] + np.arange(1, na + 1) * dt))
        try:
            vals = np.asarray(c["f"](ext - c["t0"]), dtype=float)
        except (ValueError, TypeError):
            vals = np.array([c["f"](t) for t in ext - c["t0"]], dtype=float)
        vals = vals * c["factor"]
        scale += float(np.max(np.abs(vals))) if len(vals) else 0.0     # natural magnitude (all responses used have |H| <= 1)
        if c["filters"]:
            M = len(vals)
            fr = scipy.fft.fftfreq(2 * M, d=dt)
            H = np.ones(2 * M, complex)
            for resp, force in c["filters"]:
                if force:
                    h = np.array([complex(resp(abs(x))) for x in fr])
                    h = np.where(fr < 0, np.conj(h), h)
                else:
                    h = np.array([complex(resp(x)) for x in fr])
                H *= h
            vals = np.real(scipy.fft.ifft(H * scipy.fft.fft(np.concatenate((vals, np.zeros(M))))))[:M]
        out += vals[nb:nb + N]
    return out, max(scale, 1e-300)


def ambiguous_slots(sh, pointwise=True):
    dt = sh.times[1] - sh.times[0]
    slots = []
    for ci, c in enumerate(sh.comps):
        if not c["filters"] and pointwise:
            continue       # pointwise function without a filter: the buffer samples are cropped away again
        # components that share a buffer value share the rounding decision
        if len(_counts(c["lead"], dt)) > 1 and ("lead", c["lead"]) not in slots:
            slots.append(("lead", c["lead"]))
        if len(_counts(c["trail"], dt)) > 1 and ("trail", c["trail"]) not in slots:
            slots.append(("trail", c["trail"]))
    return slots


def fresh_from_shadow(sh, value_type):
    from pyrex.signals import FunctionSignal
    g = FunctionSignal(sh.times.copy(), None, value_type)
    g._functions = [c["f"] for c in sh.comps]
    g._t0s = [c["t0"] for c in sh.comps]
    g._buffers = [[c["lead"], c["trail"]] for c in sh.comps]
    g._factors = [c["factor"] for c in sh.comps]
    g._filters = [list(c["filters"]) for c in sh.comps]
    return g


def make_signal(case, rng):
    import pyrex.signals as sg
    N, dt = case["N"], case["dt"]
    times = case["t_start"] + np.arange(N) * dt
    cls = case["cls"]
    if cls == "function-signal":
        f = FUNCS[int(rng.integers(0, 4))]
        s = sg.FunctionSignal(times, f, str(rng.choice(["voltage", "undefined"])))
        return s, f
    if cls == "fft-noise":
        s = sg.FFTThermalNoise(times, (0.05 / dt, 0.35 / dt), rms_voltage=1.0, uniqueness_factor=int(rng.integers(1, 4)))
    elif cls == "full-noise":
        s = sg.FullThermalNoise(times, (0.05 / dt, 0.35 / dt), rms_voltage=1.0)
    else:
        import pyrex
        from pyrex.askaryan import AVZAskaryanSignal, ZHSAskaryanSignal, ARZAskaryanSignal
        p = gen.make_particle(energy=10 ** rng.uniform(6, 10), em_frac=float(rng.uniform(0, 1)), had_frac=float(rng.uniform(0, 1)))
        model = {"askaryan-avz": AVZAskaryanSignal, "askaryan-zhs": ZHSAskaryanSignal, "askaryan-arz": ARZAskaryanSignal}[cls]
        times = np.arange(N) * dt + case["t_start"]
        s = model(times, p, viewing_angle=np.radians(rng.uniform(40, 70)), viewing_distance=float(rng.uniform(10, 2000)),
                  t0=float(times[0] + rng.uniform(0.2, 0.6) * N * dt))
    return s, s._functions[0]      # the definition of a subclass object: its own function, taken once


def run_signal_case(case, v):
    import pyrex.signals as sg
    rng = case_rng(case)
    s, f0 = make_signal(case, rng)
    sh = Shadow(s.times, [dict(f=f0, t0=0.0, factor=1.0, filters=[], lead=0.0, trail=0.0)])
    vt = s.value_type
    log, rmr = [], 0
    read_before, mutated = False, False
    watched = []        # (operand object, its own shadow, value type): operands of earlier '+' / 'copy' must keep reporting their own definition
    for step in range(case["nops"]):
        op = str(rng.choice(["read", "shift", "imul", "idiv", "filter", "filter", "buffers", "buffers", "buffers_refused", "resample", "with_times", "add", "copy", "times", "times_iadd"]))
        dt = s.dt
        if op == "shift":
            d = float(rng.uniform(-20e-9, 20e-9))
            s.shift(d)
            sh.times = sh.times + d
            for c in sh.comps:
                c["t0"] = c["t0"] + d
            log.append("shift(%.3g)" % d)
        elif op == "imul":
            c_ = float(rng.uniform(-2, 2))
            s *= c_
            for c in sh.comps:
                c["factor"] = c["factor"] * c_
            log.append("*=%.3g" % c_)
        elif op == "idiv":
            c_ = float(rng.uniform(0.5, 2))
            s /= c_
            for c in sh.comps:
                c["factor"] = c["factor"] / c_
            log.append("/=%.3g" % c_)
        elif op == "filter":
            k, force = int(rng.integers(0, 4)), bool(rng.integers(0, 2))
            s.filter_frequencies(RESPS[k], force_real=force)
            for c in sh.comps:
                c["filters"].append((RESPS[k], force))
            log.append("filter(%d,force_real=%s)" % (k, force))
        elif op == "buffers":
            lead = [None, 0.0, 3.4 * dt, 10.4 * dt][int(rng.integers(0, 4))]
            trail = [None, 0.0, 5.3 * dt][int(rng.integers(0, 3))]
            force = bool(rng.integers(0, 2))
            s.set_buffers(leading=lead, trailing=trail, force=force)
            sh.set_buffers(lead, trail, force)
            log.append("set_buffers(%s,%s,force=%s)" % (lead, trail, force))
        elif op == "buffers_refused":
            # a call that is refused (negative trailing buffer) after its valid leading buffer has been taken over: whatever the
            # object holds afterwards is its definition, and the next read must answer for that definition
            lead = [None, 0.0, 3.4 * dt, 10.4 * dt][int(rng.integers(0, 4))]
            force = bool(rng.integers(0, 2))
            try:
                s.set_buffers(leading=lead, trailing=-2.2 * dt, force=force)
                v.check(False, "a negative buffer time is refused", history=log[-6:])
            except ValueError:
                pass
            sh.set_buffers(lead, None, force)
            log.append("set_buffers(%s,negative,force=%s) refused" % (lead, force))
        elif op == "resample":
            n = int(rng.integers(8, 60))
            s.resample(n)
            if n != len(sh.times):
                sh.times = np.linspace(sh.times[0], sh.times[-1], n)
            log.append("resample(%d)" % n)
        elif op == "with_times":
            L = len(s.times)
            r_ = rng.random()
            if r_ < 0.25:
                # re-gridded onto the grid *array* of a signal that stays in use: that signal must not feel what happens to the result
                nt = s.times
                watched.append((s, sh.copy(), vt))
            elif r_ < 0.7:
                a_ = int(rng.integers(0, L // 2))
                b_ = int(rng.integers(L // 2 + 2, L + 1))
                nt = np.array(s.times[a_:b_])
            elif r_ < 0.85:
                nt = s.times[0] + np.arange(-5, L + 5) * dt
            elif r_ < 0.93:
                # as many samples as before, the whole grid moved by a fraction of a step up to a few steps (nanoseconds at most)
                nt = np.array(s.times, float) + float(rng.uniform(0.05, 4) * rng.choice([-1, 1])) * dt
            else:
                # as many samples as before from the same start, the step stretched or squeezed
                nt = s.times[0] + np.arange(L) * dt * float(rng.uniform(0.6, 1.6))
            old = sh.times
            s = s.with_times(nt)
            sh = sh.copy()
            sh.times = np.array(nt, float)
            if nt[0] >= old[0] and nt[-1] <= old[-1]:
                sh.set_buffers(nt[0] - old[0], old[-1] - nt[-1], False)
            log.append("with_times(%d samples)" % len(nt))
        elif op == "add":
            k = int(rng.integers(0, 4))
            o = sg.FunctionSignal(np.array(s.times), FUNCS[k], "undefined")
            oc = dict(f=FUNCS[k], t0=0.0, factor=1.0, filters=[], lead=0.0, trail=0.0)
            if rng.random() < 0.5:
                r = int(rng.integers(0, 4))
                o.filter_frequencies(RESPS[r], force_real=True)
                oc["filters"].append((RESPS[r], True))
            if rng.random() < 0.5:
                _ = o.values         # the operand may already have been read
            left = rng.random() < 0.3
            prev, prev_sh = s, sh.copy()
            s = (o + s) if left else (s + o)
            sh = sh.copy()
            if left:
                sh.comps.insert(0, oc)
            else:
                sh.comps.append(oc)
            watched.append((o, Shadow(sh.times.copy(), [dict(oc, filters=list(oc["filters"]))]), o.value_type))
            watched.append((prev, prev_sh, vt))
            log.append("%sFunctionSignal(%d)" % ("reflected +" if left else "+", k))
        elif op == "copy":
            watched.append((s, sh.copy(), vt))
            s = s.copy()
            sh = sh.copy()
            log.append("copy")
        elif op == "times_iadd":
            d = float(rng.uniform(-5e-9, 5e-9))
            s.times += d            # augmented assignment: the attribute is re-bound to the array it already holds
            sh.times = sh.times + d
            log.append("times+=%.3g" % d)
        elif op == "times":
            mult = int(rng.choice([1, 2]))
            nt = s.times[0] + np.arange(len(s.times)) * dt * mult
            s.times = nt
            sh.times = np.array(nt, float)
            log.append("times=(dt*%d)" % mult)
        else:
            log.append("read")
        if op != "read":
            mutated = True
        if op == "read" or rng.random() < 0.5:
            pattern = read_before and mutated
            read_before, mutated = True, False
            got = np.array(s.values)
            if not v.check(got.shape == (len(s.times),) and len(s.times) == len(sh.times), "one value per time sample after the history",
                           nvalues=int(got.size), ntimes=len(s.times), history=log[-6:]):
                break
            v.check(np.array_equal(np.asarray(s.times), sh.times) or np.allclose(np.asarray(s.times), sh.times, rtol=0, atol=1e-18),
                    "time grid == the grid the history defines", history=log[-6:])
            fv = np.array(fresh_from_shadow(sh, vt).values)
            slots = ambiguous_slots(sh, pointwise=not case["cls"].startswith("askaryan"))
            if len(slots) > 8:
                break          # too many independent rounding decisions to enumerate: stop the history here (undecided tail)
            best = None
            for mask in range(2 ** len(slots)):
                pick = {sl: (mask >> i) & 1 for i, sl in enumerate(slots)}
                e, sc = eager(sh, pick)
                dev = float(np.max(np.abs(got - e))) / sc
                if best is None or dev < best:
                    best = dev
            # ARZ places its pulse with int() truncations on an internal fine grid (see C07): a buffer grid that differs from
            # the code's own by one ulp moves the pulse by a fine step, so its eager comparison is held to 5e-3 of the natural
            # scale; staleness is still decided exactly by the fresh-object oracle below
            etol = 5e-3 if case["cls"] == "askaryan-arz" else 1e-9
            ok1 = v.close("values == eager evaluation of the definition", best, etol, history=log[-8:], read_mutate_read=pattern)
            ok2 = v.close("values == fresh object with the same defining attributes", float(np.max(np.abs(got - fv))) / sc, 1e-12,
                          history=log[-8:], read_mutate_read=pattern) if (not slots or case["cls"] == "askaryan-arz") else True
            if pattern:
                rmr += 1
            if not (ok1 and ok2):
                break
            # staleness oracle that needs no model: binding an equal copy of the grid forces a re-evaluation; it must give the same values
            s.times = np.array(s.times)
            again = np.array(s.values)
            if not v.close("values do not change when re-evaluation is forced (an equal grid is bound again)", float(np.max(np.abs(again - got))) / sc if again.shape == got.shape else float("inf"),
                           1e-12, history=log[-8:]):
                break
            # operands of earlier additions / copies still report their own definition (nothing the result did reached them)
            for wobj, wsh, wvt in watched[-4:]:
                try:
                    wv = np.array(wobj.values)
                    wf = np.array(fresh_from_shadow(wsh, wvt).values)
                except Exception:       # noqa: BLE001 -- e.g. single-sample leftovers; not this clause's business
                    continue
                if not v.check(np.shape(wobj.times) == np.shape(wsh.times) and bool(np.allclose(np.asarray(wobj.times, float), wsh.times, rtol=0, atol=1e-18)),
                               "operands of earlier operations keep their own time grid", history=log[-8:]):
                    break
                if wv.shape == wf.shape:
                    wsc = max(float(np.max(np.abs(wf))), float(np.max(np.abs(wv))), 1e-30)
                    if not v.close("operands of earlier operations still report their own definition", float(np.max(np.abs(wv - wf))) / wsc, 1e-9, history=log[-8:]):
                        break
    return rmr, {"kind": case["cls"], "N": case["N"], "dt": case["dt"], "history": log, "read_mutate_read": rmr}


# ------------------------------------------------------------------ ray tracers and paths
def _describe_tracer(tr):
    """Everything a user reads from a tracer; exceptions are part of the description."""
    out = {}
    try:
        out["exists"] = bool(tr.exists)
        sols = tr.solutions
        out["n"] = len(sols)
        out["paths"] = [_describe_path(p) for p in sols]
    except Exception as e:          # noqa: BLE001  (compared with the fresh object's behaviour)
        out["raises"] = type(e).__name__
    return out


def _describe_path(p):
    out = {}
    try:
        out["tof"] = float(p.tof)
        out["path_length"] = float(p.path_length)
        out["emitted"] = [float(x) for x in p.emitted_direction]
        out["received"] = [float(x) for x in p.received_direction]
    except Exception as e:          # noqa: BLE001
        out["raises"] = type(e).__name__
    return out


def _same(a, b, tol=1e-12):
    if type(a) != type(b):
        return False
    if isinstance(a, dict):
        return a.keys() == b.keys() and all(_same(a[k], b[k], tol) for k in a)
    if isinstance(a, list):
        return len(a) == len(b) and all(_same(x, y, tol) for x, y in zip(a, b))
    if isinstance(a, float):
        return (a == b) or (np.isnan(a) and np.isnan(b)) or abs(a - b) <= tol * max(abs(a), abs(b), 1e-300)
    return a == b


def run_ray_case(case, v):
    import pyrex.ray_tracing as rt
    rng = case_rng(case)
    kind = ["specialized", "basic", "uniform"][int(rng.integers(0, 3))]

    def ice_for():
        if kind == "uniform":
            return {"kind": "uniform", "n": float(rng.uniform(1.3, 1.8)), "range": [-float(rng.uniform(1500, 3000)), 0.0], "above": 1.0, "below": [None, 1.9][int(rng.integers(0, 2))]}
        return gen.ice_family_spec(rng)

    def pt():
        return [float(rng.uniform(-800, 800)), float(rng.uniform(-800, 800)), -float(rng.uniform(20, 1400))]

    def build(state):
        ice = gen.make_ice(state["ice"])
        if kind == "specialized":
            return rt.SpecializedRayTracer(state["from"], state["to"], ice, dz=state["dz"])
        if kind == "basic":
            return rt.BasicRayTracer(state["from"], state["to"], ice, dz=state["dz"])
        return rt.UniformRayTracer(state["from"], state["to"], ice)

    state = {"from": pt(), "to": pt(), "ice": ice_for(), "dz": float(rng.choice([0.5, 1.0, 2.0]))}
    log, rmr = [], 0
    if case["cls"] == "ray-tracer":
        tr = build(state)
        read_before, mutated = False, False
        for step in range(case["nops"]):
            op = str(rng.choice(["read", "from_point", "to_point", "ice", "dz"] if kind != "uniform" else ["read", "from_point", "to_point", "ice"]))
            if op == "from_point":
                if rng.random() < 0.4:
                    off = np.array([float(rng.uniform(-30, 30)), float(rng.uniform(-30, 30)), float(rng.uniform(-5, 0))])
                    state["from"] = [state["from"][i] + off[i] for i in range(3)]
                    tr.from_point += off          # augmented assignment re-binds the same array object
                    op = "from_point+="
                else:
                    state["from"] = pt()
                    tr.from_point = np.array(state["from"])
            elif op == "to_point":
                if rng.random() < 0.4:
                    off = np.array([float(rng.uniform(-30, 30)), float(rng.uniform(-30, 30)), float(rng.uniform(-5, 0))])
                    state["to"] = [state["to"][i] + off[i] for i in range(3)]
                    tr.to_point -= -off
                    op = "to_point-="
                else:
                    state["to"] = pt()
                    tr.to_point = np.array(state["to"])
            elif op == "ice":
                state["ice"] = ice_for()
                tr.ice = gen.make_ice(state["ice"])
            elif op == "dz":
                state["dz"] = float(rng.choice([0.5, 1.0, 2.0, 3.0]))
                tr.dz = state["dz"]
            log.append(op)
            if op != "read":
                mutated = True
            if op == "read" or rng.random() < 0.6:
                pattern = read_before and mutated
                read_before, mutated = True, False
                got, want = _describe_tracer(tr), _describe_tracer(build(state))
                ok = v.check(_same(got, want), "tracer reports what a freshly constructed tracer reports", kind=kind, history=log[-6:],
                             got={k: got.get(k) for k in ("exists", "n", "raises")}, fresh={k: want.get(k) for k in ("exists", "n", "raises")},
                             read_mutate_read=pattern)
                rmr += int(pattern)
                if not ok:
                    break
    else:
        tr = build(state)
        try:
            sols = list(tr.solutions)
        except Exception:       # noqa: BLE001  (C01's business; here there is just nothing to mutate)
            sols = []
        if not sols:
            return 0, {"kind": kind, "history": ["no solution to mutate"]}, False
        path = sols[int(rng.integers(0, len(sols)))]
        pst = {"from": list(state["from"]), "to": list(state["to"]), "theta0": float(path.theta0), "dz": state["dz"], "ice": state["ice"],
               "direct": bool(path.direct), "refl": getattr(path, "_reflections", None)}

        def fresh_path():
            parent = types.SimpleNamespace(from_point=np.array(pst["from"]), to_point=np.array(pst["to"]), ice=gen.make_ice(pst["ice"]), dz=pst["dz"])
            if kind == "uniform":
                return rt.UniformRayTracePath(parent, pst["theta0"], pst["refl"])
            return type(path)(parent, pst["theta0"], pst["direct"])
        read_before, mutated = False, False
        for step in range(case["nops"]):
            op = str(rng.choice(["read", "theta0", "to_point", "from_point", "dz", "ice"] if kind != "uniform" else ["read", "theta0", "to_point", "from_point", "ice"]))
            if op == "theta0":
                pst["theta0"] = float(pst["theta0"] + rng.uniform(-2e-3, 2e-3))
                path.theta0 = pst["theta0"]
            elif op == "to_point":
                pst["to"] = [pst["to"][0] + float(rng.uniform(-1, 1)), pst["to"][1] + float(rng.uniform(-1, 1)), min(pst["to"][2] + float(rng.uniform(-1, 1)), -1.0)]
                path.to_point = np.array(pst["to"])
            elif op == "from_point":
                pst["from"] = [pst["from"][0] + float(rng.uniform(-1, 1)), pst["from"][1] + float(rng.uniform(-1, 1)), min(pst["from"][2] + float(rng.uniform(-1, 1)), -1.0)]
                path.from_point = np.array(pst["from"])
            elif op == "dz":
                pst["dz"] = float(rng.choice([0.5, 1.0, 2.0]))
                path.dz = pst["dz"]
            elif op == "ice":
                if kind == "uniform":
                    pst["ice"] = dict(pst["ice"], n=float(rng.uniform(1.3, 1.8)))
                else:
                    pst["ice"] = gen.ice_family_spec(rng)
                path.ice = gen.make_ice(pst["ice"])
            log.append(op)
            if op != "read":
                mutated = True
            if op == "read" or rng.random() < 0.6:
                pattern = read_before and mutated
                read_before, mutated = True, False
                got, want = _describe_path(path), _describe_path(fresh_path())
                ok = v.check(_same(got, want), "path reports what a freshly constructed path reports", kind=kind, history=log[-6:], got=got, fresh=want,
                             read_mutate_read=pattern)
                rmr += int(pattern)
                if not ok:
                    break
    return rmr, {"kind": kind, "object": case["cls"], "history": log, "read_mutate_read": rmr}, True


def _run_case(case):
    v = V()
    if case["cls"] in ("ray-tracer", "ray-path"):
        rmr, sample, decided = run_ray_case(case, v)
        return v.result(decided=decided, nontrivial=rmr > 0, sample=sample, skip=None if decided else "no ray solution to mutate")
    rmr, sample = run_signal_case(case, v)
    return v.result(decided=True, nontrivial=rmr > 0, sample=sample)


def fx_set_buffers(case, viol):
    return any("set_buffers" in h for h in viol["detail"].get("history", [])[-3:])


def run_case(case):
    if case["cls"] == "repo-suite":
        from vt import suite
        v_ = V()
        rep = suite.run("c06", case["files"])
        evals = int(rep.get("contract_evaluations", {}).get("c06", {}).get("inv_compared", 0))
        v_.events += evals
        for f_ in rep.get("contract_failures", []):
            v_.check(False, "contract holds while the repository's own tests run", test=f_["test"], message=f_["message"])
        sample_ = {"workload": "repository test files under the contract", "files": rep.get("files"), "tests_collected": rep.get("collected"), "cached_quantities_recomputed_and_compared": evals, "pytest": rep.get("tail")}
        if rep.get("returncode") != 0 and not rep.get("contract_failures"):
            return v_.result(decided=False, nontrivial=False, sample=sample_, skip="repository tests did not pass under the plugin")
        return v_.result(decided=True, nontrivial=evals >= 50, sample=sample_)
    try:
        return _run_case(case)
    except InvariantBroken as e:
        v_ = V()
        v_.check(False, "class invariant: no cached quantity differs from what the object computes once its cache is emptied", contract=str(e)[:300], kind=case["cls"])
        return v_.result(decided=True, nontrivial=True, sample={"kind": case["cls"]})
