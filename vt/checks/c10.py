"""C10 — the event kernel delivers one time-aligned signal per ray solution, for every shipped component.

Monitor: recorders on antenna.receive (copies of signal times/values/types, direction, polarization), on the signal
model class (arguments, ValueError), on writer.add and on each trigger function, plus the return value of event().
Oracle: recomputation from the statement for every particle passing the weight cuts x antenna x ray solution.
"""
import os
import shutil
import tempfile
import numpy as np
from vt.util import V, case_rng, rng_for
from vt import gen

PROPERTY = "C10"
TITLE = "Event kernel: one time-aligned signal per ray solution"
TECHNIQUE = ('runtime monitoring: recorders on antenna.receive, the signal model, writer.add and the trigger functions around EventKernel.event(), decided by recomputation per particle x antenna x ray solution; decoy kernels with other media run first')
ANCHORS = ["pyrex.kernel:EventKernel.event", "pyrex.kernel:EventKernel.__init__", "pyrex.ray_tracing:BasicRayTracePath.propagate",
           "pyrex.ray_tracing:UniformRayTracePath.propagate", "pyrex.custom.layered_ice.ray_tracing:LayeredRayTracePath.propagate", "pyrex.antenna:Antenna.receive"]
RULE = ("one case = one kernel configuration {Specialized/Basic/Uniform(max_reflections 0-2)/Layered tracer with matching ice} x "
        "{ARZ, AVZ, ZHS} x generator {List with multi-particle events and child particles, Cylindrical, Rectangular with shadow "
        "on/off} x antennas {list of recording antennas, Detector, AntennaSystems} x offcone_max {None, 40, 5, 0} x weight_min "
        "{None, float, (a, b)} x attenuation_interpolation {None, 0.1} x writer {none, recording stub, real HDF5Writer} x "
        "triggers {None, callable, dict with 'global'}, run for 1-2 events; non-trivial = at least one antenna received a "
        "signal and the recomputation covered it; distinct = hash of the case")
ASSUMPTIONS = ["particles carry finite weights chosen by the harness for List generators; for random generators the kernel's own event is inspected after the fact",
               "the recomputed on-cone pulse uses the same model / path objects' public methods (model(...), path.propagate)"]
BUDGET = {"quick": 900, "thorough": 7200}
CASE_TIMEOUT = {"quick": 400, "thorough": 900}
MIN_NONTRIVIAL = 5


def gen_cases(tier, seed):
    rng = rng_for(PROPERTY, seed)
    n = 64 if tier == "quick" else 1500
    out = []
    tracers = ["specialized", "basic", "specialized-greenland", "uniform", "layered"]
    for i in range(n):
        out.append({"cls": tracers[i % 5], "tracer": tracers[i % 5], "model": ["ARZ", "AVZ", "ZHS"][(i // 5) % 3],
                    "generator": ["list", "list", "cylindrical", "rectangular"][int(rng.integers(0, 4))], "shadow": bool(rng.integers(0, 2)),
                    "antennas": ["list", "detector", "systems"][int(rng.integers(0, 3))], "n_ant": int(rng.integers(1, 4)),
                    "offcone": [None, 40, 5, 0][int(rng.integers(0, 4))], "weight_min": [None, 1e-4, [0.4, 1e-3]][int(rng.integers(0, 3))],
                    "interp": [None, 0.1][int(rng.integers(0, 2))], "writer": ["none", "stub", "hdf5"][int(rng.integers(0, 3))],
                    "triggers": ["none", "callable", "dict"][int(rng.integers(0, 3))], "n_times": int(rng.choice([256, 501])),
                    "max_reflections": int(rng.integers(0, 3)), "events": int(rng.integers(1, 3)), "salt": int(rng.integers(0, 2**31))})
    return out


def run_case(case):
    import pyrex
    import pyrex.ray_tracing as rt
    import pyrex.askaryan as ask
    from pyrex.antenna import Antenna
    from pyrex.detector import AntennaSystem, Detector
    from pyrex.particle import Particle, Event
    from pyrex.generation import ListGenerator, CylindricalGenerator, RectangularGenerator
    from pyrex.kernel import EventKernel
    from pyrex.ice_model import AntarcticIce, ArasimIce, GreenlandIce, UniformIce
    from pyrex.custom.layered_ice import LayeredIce, LayeredRayTracer
    v = V()
    rng = case_rng(case, case["salt"])
    np.random.seed(case["salt"] % 2**32)

    class RecAnt(Antenna):
        def __init__(self, *a, **k):
            super().__init__(*a, **k)
            self.log = []

        def receive(self, signal, direction=None, polarization=None, force_real=False):
            sigs = signal if hasattr(signal, "__len__") else [signal]
            self.log.append(dict(times=[np.array(s.times) for s in sigs], vals=[np.array(s.values) for s in sigs], types=[s.value_type for s in sigs],
                                 direction=None if direction is None else np.array(direction),
                                 pol=None if polarization is None else [np.array(x) for x in polarization]))
            return super().receive(signal, direction=direction, polarization=polarization, force_real=force_real)

    class Sys(AntennaSystem):
        def __init__(self, pos):
            super().__init__(RecAnt)
            self.setup_antenna(position=pos, noisy=False)
            self.position = self.antenna.position

    class Det(Detector):
        def set_positions(self, positions):
            for p in positions:
                self.antenna_positions.append(tuple(p))

    class RecWriter:
        is_open, has_detector = True, True

        def __init__(self):
            self.adds, self.meta = [], []

        def create_analysis_metadataset(self, *a, **k):
            self.meta.append(("create", a))

        def add_analysis_metadata(self, *a, **k):
            self.meta.append(("add", a))

        def add(self, **kw):
            self.adds.append(kw)

    def config(name):
        if name == "specialized":
            return rt.SpecializedRayTracer, AntarcticIce()
        if name == "basic":
            return rt.BasicRayTracer, ArasimIce()
        if name == "specialized-greenland":
            return rt.SpecializedRayTracer, GreenlandIce()
        if name == "uniform":
            return (type("UTk", (rt.UniformRayTracer,), {"max_reflections": case["max_reflections"]}),
                    UniformIce(1.6, valid_range=(-2850, 0), index_above=1, index_below=None))
        return LayeredRayTracer, LayeredIce([AntarcticIce(valid_range=(-500, 0), index_above=1, index_below=None),
                                             AntarcticIce(valid_range=(-2850, -500), index_above=None, index_below=None)])
    tr = case["tracer"]
    tracer, ice = config(tr)
    if tr == "basic":
        # the numeric tracer has known ways of failing inside its root search (C01/C02 findings): a subclass hands the
        # failure out together with the mechanism observables measured on the failing tracer object
        from vt.checks.c01 import bracket_end_observables

        class TracerFailed(ValueError):
            pass
        _Base = tracer

        class ObservedTracer(_Base):
            @property
            def solutions(self):
                try:
                    return _Base.solutions.__get__(self, type(self))
                except TracerFailed:
                    raise
                except Exception as e:       # noqa: BLE001
                    obs = bracket_end_observables(self, str(e))
                    try:
                        z_ = [float(self.from_point[2]), float(self.to_point[2])]
                        obs["turn_depth_error"] = float(max(abs(float(self.ice.depth_with_index(self.ice.index(q))) - q) for q in z_))
                        obs["z_turn_proximity"] = float(self.z_turn_proximity)
                    except Exception:       # noqa: BLE001
                        pass
                    err = TracerFailed(type(e).__name__ + ": " + str(e)[:120])
                    err.observables = dict(obs, source=[float(x) for x in self.from_point], receiver=[float(x) for x in self.to_point])
                    raise err
        tracer = ObservedTracer
    model = {"ARZ": ask.ARZAskaryanSignal, "AVZ": ask.AVZAskaryanSignal, "ZHS": ask.ZHSAskaryanSignal}[case["model"]]
    model_calls = []

    class RecModel(model):
        def __init__(self, times, particle, viewing_angle, viewing_distance=1, ice_model=None, t0=0):
            model_calls.append(dict(times=times, particle=particle, angle=float(viewing_angle), distance=float(viewing_distance), ice=ice_model))
            super().__init__(times, particle, viewing_angle, viewing_distance=viewing_distance, ice_model=ice_model, t0=t0)

    positions = [(float(rng.uniform(-50, 50)), float(rng.uniform(-50, 50)), -float(rng.uniform(20, 400))) for _ in range(case["n_ant"])]
    if case["antennas"] == "list":
        ants = [RecAnt(p, noisy=False) for p in positions]
        getlog = lambda a_: a_.log
    elif case["antennas"] == "detector":
        ants = Det(positions)
        ants.build_antennas(RecAnt, noisy=False)
        getlog = lambda a_: a_.log
    else:
        ants = [Sys(p) for p in positions]
        getlog = lambda a_: a_.antenna.log
    ant_list = list(ants)
    # ---- generator
    if case["generator"] == "list":
        events = []
        for e_ in range(2):
            parts = []
            for k in range(int(rng.integers(1, 4))):
                vtx_ = (rng.uniform(-800, 800), rng.uniform(-800, 800), -rng.uniform(50, 2000))
                dir_ = rng.normal(size=3)
                if case["offcone"] in (5, 40) and rng.random() < 0.6:
                    # aim the shower so that the first ray to the first antenna is viewed close to the off-cone limit (inside or
                    # outside it by up to 30 %), measured from the Cherenkov angle of the *configured* ice at the vertex
                    try:
                        sols_ = list(tracer(vtx_, positions[0], ice_model=ice).solutions)
                    except Exception:       # noqa: BLE001
                        sols_ = []
                    if sols_:
                        em_ = np.asarray(sols_[0].emitted_direction, float)
                        perp_ = np.cross(em_, rng.normal(size=3))
                        perp_ = perp_ / max(np.linalg.norm(perp_), 1e-300)
                        ang_ = float(np.arccos(1 / ice.index(vtx_[2]))) + float(rng.choice([-1, 1])) * np.radians(case["offcone"]) * float(rng.uniform(0.7, 1.3))
                        dir_ = em_ * np.cos(ang_) + perp_ * np.sin(ang_)
                p = Particle(str(rng.choice(["nu_e", "nu_mu", "nu_tau_bar"])), vtx_, dir_, float(10 ** rng.uniform(6, 10)))
                # weights include the configured minima themselves (0.4 / 1e-3 for the pair, 1e-4 for the product) and exactly 0
                p.survival_weight = float(rng.choice([1.0, 0.5, 1e-3, 0.4, 1.0]))
                p.interaction_weight = float(rng.choice([1.0, 1e-2, 1e-6, 1e-3, 1e-4, 0.0]))
                parts.append(p)
            ev = Event(parts[0])
            if len(parts) > 1:
                ev.add_children(parts[0], parts[1:])
            events.append(ev)
        generator = ListGenerator(events)
    elif case["generator"] == "cylindrical":
        generator = CylindricalGenerator(dr=800, dz=1500, energy=lambda: 10 ** np.random.uniform(6, 10), shadow=case["shadow"])
    else:
        generator = RectangularGenerator(1500, 1500, 1500, energy=1e9, shadow=case["shadow"])
    off, wm, ai = case["offcone"], case["weight_min"], case["interp"]
    wm_arg = tuple(wm) if isinstance(wm, list) else wm
    tmpdir = None
    if case["writer"] == "stub":
        wr = RecWriter()
    elif case["writer"] == "hdf5":
        tmpdir = tempfile.mkdtemp(prefix="vt_c10_")
        wr = pyrex.File(os.path.join(tmpdir, "k.h5"), "w", write_waveforms=True, require_trigger=False)
        wr.open()
        wr.set_detector(ants)
    else:
        wr = None
    trig_calls = []

    def tfun(dets):
        r = any(a_.is_hit for a_ in dets)
        trig_calls.append(("global", dets, r))
        return r

    def tfun2(dets):
        trig_calls.append(("x", dets, False))
        return False
    triggers = {"none": None, "callable": tfun, "dict": {"global": tfun, "x": tfun2}}[case["triggers"]]
    if case["writer"] == "hdf5" and triggers is None:
        triggers = tfun      # the real writer needs trigger information
    times = np.linspace(-20e-9, 80e-9, case["n_times"], endpoint=False)
    geo = {"tracer": tr, "model": case["model"], "generator": case["generator"], "antennas": case["antennas"], "offcone": off, "weight_min": wm, "interp": ai,
           "writer": case["writer"], "triggers": case["triggers"]}
    nrecv = noff = nskip = 0
    tracer_failed = False
    try:
        if case["generator"] == "list" and case["salt"] % 2 == 0:
            # another kernel with another medium / tracer, run first on the very same vertices and antenna positions, must leave no trace
            other = [n_ for n_ in ("specialized", "basic", "specialized-greenland", "uniform", "layered") if n_ != tr][case["salt"] // 2 % 4]
            tracer_o, ice_o = config(other)
            decoy = EventKernel(ListGenerator(events), [Antenna(p_, noisy=False) for p_ in positions], ice_model=ice_o, ray_tracer=tracer_o, signal_model=model,
                                signal_times=times, offcone_max=off, weight_min=wm_arg)
            try:
                decoy.event()
            except Exception:       # noqa: BLE001 -- the decoy configuration is not what this case decides
                pass
            geo["run_after_a_kernel_with"] = other
        regrid_after = bool(case["salt"] % 3 == 0)
        kern = EventKernel(generator, ants, ice_model=ice, ray_tracer=tracer, signal_model=RecModel,
                           signal_times=(np.linspace(-3e-8, 9e-8, 77) if regrid_after else times), event_writer=wr, triggers=triggers,
                           offcone_max=off, weight_min=wm_arg, attenuation_interpolation=ai)
        if regrid_after:
            # the configured time grid is a public attribute: re-configured before the first event, everything the kernel hands out
            # (pulses and the empty pulses of off-cone views alike) is on the new grid
            kern.signal_times = times
            geo["signal_times_reconfigured_after_construction"] = True
        if isinstance(wr, RecWriter):
            v.check(len(wr.meta) == 2, "kernel registers its parameters with the writer", meta=[m[0] for m in wr.meta])
        for n_ev in range(case["events"]):
            keep_signals = n_ev > 0 and bool(rng.random() < 0.5)      # a second event on antennas that still hold the first one's signals
            for a_ in ant_list:
                if not keep_signals:
                    a_.clear()
                getlog(a_).clear()
            held_before = [len((a_.antenna if hasattr(a_, "antenna") else a_).signals) for a_ in ant_list]
            del model_calls[:]
            del trig_calls[:]
            count0 = generator.count
            try:
                ret = kern.event()
            except ValueError as e_:
                if tr == "basic" and hasattr(e_, "observables"):
                    v.check(False, "the configured ray tracer answers inside the kernel (no exception)", error=str(e_), **dict(geo, **e_.observables))
                    tracer_failed = True
                    break
                raise
            thrown = generator.count - count0
            ev = ret if triggers is None else ret[0]
            v.check(isinstance(ev, Event), "event() returns the generator's event", returned=type(ret).__name__, **geo)
            if case["generator"] == "list":
                v.check(ev is generator.events[n_ev % len(generator.events)], "event() returns the generator's event", **geo)
            # ---- oracle: what must each antenna have received
            exp = [[] for _ in ant_list]
            for p in ev:
                if isinstance(wm, list):
                    if (p.survival_weight is not None and p.survival_weight < wm[0]) or (p.interaction_weight is not None and p.interaction_weight < wm[1]):
                        nskip += 1
                        continue
                elif wm is not None and p.weight < wm:
                    nskip += 1
                    continue
                for i, a_ in enumerate(ant_list):
                    rtr = tracer(p.vertex, a_.position, ice_model=ice)
                    sols = list(rtr.solutions)
                    v.check(bool(rtr.exists) == (len(sols) > 0), "tracer exists <=> solutions", **geo)
                    thc = np.arccos(1 / ice.index(p.vertex[2]))
                    for path in sols:
                        psi = float(np.arccos(np.vdot(p.direction, path.emitted_direction)))
                        offc = np.radians(180) if off is None else np.radians(off)
                        exp[i].append((path, abs(psi - thc) > offc, p, psi))
            for i, a_ in enumerate(ant_list):
                lg = getlog(a_)
                if not v.check(len(lg) == len(exp[i]), "each antenna receives exactly one signal per ray solution of every particle passing the weight cut",
                               received=len(lg), expected=len(exp[i]), antenna=i, **geo):
                    continue
                # ... and holds them afterwards (an off-cone solution is held as an empty signal): that is what the writer's lists line up with
                held = len((a_.antenna if hasattr(a_, "antenna") else a_).signals) - held_before[i]
                v.check(held == len(exp[i]), "after the event each antenna holds exactly one signal per ray solution (empty ones for off-cone views included)",
                        held=held, expected=len(exp[i]), antenna=i, **geo)
                for rec, (path, offcone, p, psi) in zip(lg, exp[i]):
                    nrecv += 1
                    tof = float(path.tof)
                    for t_ in rec["times"]:
                        v.check(np.array_equal(t_, times + tof), "received signal is on the configured grid delayed by that solution's time of flight",
                                max_dev=float(np.max(np.abs(t_ - (times + tof)))) if len(t_) == len(times) else None, antenna=i, **geo)
                    allzero = all(not np.any(x) for x in rec["vals"])
                    if offcone:
                        noff += 1
                        v.check(allzero and all(str(ty).endswith("field") for ty in rec["types"]), "off-cone views are replaced by an empty field signal", antenna=i, **geo)
                    else:
                        v.check(rec["direction"] is not None and float(np.max(np.abs(rec["direction"] - np.asarray(path.received_direction)))) <= 1e-12,
                                "signal is handed over with the solution's received direction", antenna=i, **geo)
                        # recomputation of the delivered pulses
                        nu_pol = np.vdot(path.emitted_direction, p.direction) * np.asarray(path.emitted_direction) - np.asarray(p.direction)
                        nu_pol = nu_pol / np.linalg.norm(nu_pol)
                        try:
                            pulse = model(times=times, particle=p, viewing_angle=psi, viewing_distance=path.path_length, ice_model=ice)
                            (es, ep), (us, up) = path.propagate(signal=pulse, polarization=nu_pol, attenuation_interpolation=ai)
                        except ValueError:
                            v.check(allzero, "a signal model refusing the view yields an empty signal", antenna=i, **geo)
                            continue
                        if v.check(len(rec["vals"]) == 2, "s and p components are delivered", n=len(rec["vals"]), **geo):
                            def _dev(x_, y_):
                                # a model pulse that is not finite (C07's own finding for ARZ) is delivered as it is: NaN in the same places counts as equal here
                                x_, y_ = np.asarray(x_, float), np.asarray(y_, float)
                                both = np.isnan(x_) & np.isnan(y_)
                                one = np.isnan(x_) ^ np.isnan(y_)
                                if one.any():
                                    return float("inf")
                                return float(np.max(np.where(both, 0.0, np.abs(np.where(both, 0.0, x_) - np.where(both, 0.0, y_))))) if x_.size else 0.0
                            fin = np.concatenate((es.values[np.isfinite(es.values)], ep.values[np.isfinite(ep.values)]))
                            scale = max(float(np.max(np.abs(fin))) if fin.size else 0.0, 1e-300)
                            v.close("delivered pulses == model pulse propagated along that solution", max(_dev(rec["vals"][0], es.values), _dev(rec["vals"][1], ep.values)) / scale, 1e-9, antenna=i,
                                    model_pulse_finite=bool(fin.size == 2 * len(es.values)), **geo)
                            v.close("delivered polarization vectors == the path's", max(float(np.max(np.abs(rec["pol"][0] - us))), float(np.max(np.abs(rec["pol"][1] - up)))), 1e-12, antenna=i, **geo)
            # signal model was asked with the configured grid and that path's length
            for mc in model_calls:
                v.check(mc["times"] is times or np.array_equal(mc["times"], times), "signal model is evaluated on the configured time grid", **geo)
                v.check(mc["ice"] is ice, "signal model is given the kernel's ice model", **geo)
            # ---- writer alignment
            if isinstance(wr, RecWriter):
                if v.check(len(wr.adds) == n_ev + 1, "writer.add is called once per event", adds=len(wr.adds), **geo):
                    kwd = wr.adds[-1]
                    v.check(kwd["event"] is ev, "writer receives the event", **geo)
                    v.check(kwd["events_thrown"] == thrown, "writer receives the number of throws of this event", given=kwd["events_thrown"], thrown=int(thrown), **geo)
                    for i, a_ in enumerate(ant_list):
                        lg = getlog(a_)
                        ok = v.check(len(kwd["ray_paths"][i]) == len(lg) and len(kwd["polarizations"][i]) == len(lg),
                                     "ray paths and polarizations reported to the writer line up one-to-one with the delivered signals",
                                     paths=len(kwd["ray_paths"][i]), pols=len(kwd["polarizations"][i]), signals=len(lg), antenna=i, **geo)
                        if ok and len(lg) == len(exp[i]):
                            for rp, pl, (path, offcone, p, psi) in zip(kwd["ray_paths"][i], kwd["polarizations"][i], exp[i]):
                                v.check(float(rp.tof) == float(path.tof), "the j-th reported ray path is the one whose time of flight shifted the j-th signal", antenna=i, **geo)
                                nu_pol = np.vdot(path.emitted_direction, p.direction) * np.asarray(path.emitted_direction) - np.asarray(p.direction)
                                v.close("reported polarization == neutrino polarization for that path", float(np.max(np.abs(np.asarray(pl) - nu_pol / np.linalg.norm(nu_pol)))), 1e-12, antenna=i, **geo)
                    # trigger handed to the writer
                    if triggers is None:
                        v.check(kwd["triggered"] is None, "no trigger functions: writer receives None", **geo)
            # ---- trigger result == supplied function(s) evaluated on the antennas
            if triggers is not None:
                want = any(a_.is_hit for a_ in ant_list)
                v.check(bool(ret[1]) == want, "trigger result == the supplied trigger function evaluated on the antennas", got=bool(ret[1]), expected=want, **geo)
                names = [c[0] for c in trig_calls]
                v.check(names.count("global") == 1 and (case["triggers"] != "dict" or names.count("x") == 1), "each supplied trigger function is evaluated exactly once per event", calls=names, **geo)
                v.check(all(c[1] is ants for c in trig_calls), "trigger functions are given the kernel's antennas", **geo)
                if isinstance(wr, RecWriter) and case["triggers"] == "dict":
                    v.check(isinstance(wr.adds[-1]["triggered"], dict) and set(wr.adds[-1]["triggered"]) == {"global", "x"}, "writer receives every trigger result", **geo)
        if case["writer"] == "hdf5" and tracer_failed:
            wr.close()          # the event loop was left when the tracer failed: nothing to count
        elif case["writer"] == "hdf5":
            wr.close()
            with pyrex.File(os.path.join(tmpdir, "k.h5"), "r") as rd:
                v.check(len(rd) == case["events"], "real HDF5 writer stored one entry per kernel event", stored=len(rd), events=case["events"], **geo)
    finally:
        if tmpdir:
            try:
                wr.close()
            except Exception:
                pass
            shutil.rmtree(tmpdir, ignore_errors=True)
    sample = dict(geo, receives=nrecv, offcone=noff, particles_cut=nskip, events=case["events"])
    return v.result(decided=True, nontrivial=nrecv > 0, sample=sample)


def fx_propagate_keyword(case, viol):
    return viol["clause"] == "unexpected exception from pyrex" and "attenuation_interpolation" in viol["detail"].get("message", "")


def fx_path_metadata(case, viol):
    return viol["clause"] == "unexpected exception from pyrex" and "_metadata" in viol["detail"].get("message", "")


def kf_basic_max_angle_nan(case, viol):
    """see KF-C01-basic-max-angle-nan: the numeric tracer's root bracket ends on a NaN for about 1 in 300 pairs."""
    import math
    d = viol["detail"]
    if not (case.get("tracer") == "basic" and viol["clause"] == "the configured ray tracer answers inside the kernel (no exception)"):
        return False
    from vt.checks.c01 import nan_confined_to_bracket_end
    confined = nan_confined_to_bracket_end(d)
    unresolved = d.get("turn_depth_error", 0.0) > d.get("z_turn_proximity", float("inf"))      # see KF-C01-basic-turning-depth-unresolved
    return ("NaN" in d.get("error", "") and confined) or (("NaN" in d.get("error", "") or "different signs" in d.get("error", "")) and unresolved)
