"""C13 — generators throw uniform, isotropic, correctly weighted neutrinos and count every throw.

Monitor: recorders on the real generator's get_vertex / get_direction / get_particle_type / get_weights /
get_exit_points / create_event and its `count`.  Oracles: KS / chi-square against the stated distributions
(p < 1e-6), independent chord geometry (slab / quadratic intersection), the C15 quadrature oracle for the column
depth, a Bernoulli z-test for shadowing with the recorded survival weights as probabilities, list models.
"""
import numpy as np
from vt.util import V, case_rng, rng_for
from vt.oracles import prem

PROPERTY = "C13"
TITLE = "Generators"
TECHNIQUE = ('runtime monitoring: recorded generator draws decided by statistical oracles (KS, chi-square, binomial z at p < 1e-6), an independent chord-through-volume geometry oracle independently recomputed weights (typed PREM tables), and a source with a known sequence of energies matched against every recorded throw')
ANCHORS = ["pyrex.generation:CylindricalGenerator.get_vertex", "pyrex.generation:RectangularGenerator.get_vertex", "pyrex.generation:Generator.get_direction",
           "pyrex.generation:Generator.get_particle_type", "pyrex.generation:CylindricalGenerator.get_exit_points",
           "pyrex.generation:RectangularGenerator.get_exit_points", "pyrex.generation:Generator.get_weights", "pyrex.generation:Generator.create_event",
           "pyrex.generation:ListGenerator.create_event"]
RULE = ("'dist' case = N throws (5e4 quick, 4e5 thorough) of one random generator configuration (cylinder or box with "
        "dimensions 10 m..10 km, energy constant or callable in 1e3..1e12 GeV, random flavour ratio incl. zeros, both "
        "sources, both interaction models) decided by KS/chi-square + exact weight recomputation on 300 of them; "
        "'shadow' = 3000 accepted events with shadowing, Bernoulli z on the recorded survival weights; 'exit' = 400 "
        "hand-built particles per geometry class (random, axis-parallel, one zero component, grazing component "
        "1e-18..1e-3, vertex on the boundary); 'list' = ListGenerator loop on/off; non-trivial = all oracles evaluated; "
        "distinct = hash of the case")
ASSUMPTIONS = ["statistical clauses reject at p < 1e-6", "survival weight tolerance = C15's derived discretisation bound for the generator's step (500 m) / interaction length",
               "PREM is the Earth model (typed-in tables of vt/oracles/prem.py)"]
BUDGET = {"quick": 900, "thorough": 7200}
CASE_TIMEOUT = {"quick": 600, "thorough": 3000}
NAMES = ["electron_neutrino", "electron_antineutrino", "muon_neutrino", "muon_antineutrino", "tau_neutrino", "tau_antineutrino"]


def gen_cases(tier, seed):
    rng = rng_for(PROPERTY, seed)
    out = []
    N = 50000 if tier == "quick" else 400000
    ndist = 8 if tier == "quick" else 32
    for i in range(ndist):
        shape = ["cyl", "box"][i % 2]
        ratio = [float(x) for x in rng.choice([0, 1, 1, 2, 0.5], size=3)]
        if sum(ratio) == 0:
            ratio = [1.0, 1.0, 1.0]
        out.append({"cls": "dist:" + shape, "shape": shape, "dims": [float(10 ** rng.uniform(1, 4)) for _ in range(3)], "N": N,
                    "log10E": float(rng.uniform(3, 12)), "energy_callable": bool(rng.integers(0, 2)), "ratio": ratio,
                    "source": ["cosmogenic", "astrophysical"][int(rng.integers(0, 2))], "model": ["CTW", "GQRS"][(i // 2) % 2],      # every shape with every model
                    "salt": int(rng.integers(0, 2**31))})
    for i in range(2 if tier == "quick" else 12):
        shape = ["cyl", "box"][i % 2]
        out.append({"cls": "shadow:" + shape, "shape": shape, "dims": [float(10 ** rng.uniform(2, 4)) for _ in range(3)], "M": 3000 if tier == "quick" else 8000,
                    "log10E": float(rng.uniform(7, 11)), "model": ["CTW", "GQRS"][(i // 2 + 1) % 2], "salt": int(rng.integers(0, 2**31))})
    geoms = ["random", "axis-parallel", "one-zero-component", "grazing", "vertex-on-boundary", "integer-vertex", "past-an-edge"]
    for i in range(14 if tier == "quick" else 280):
        shape = ["cyl", "box"][i % 2]
        out.append({"cls": "exit:%s:%s" % (shape, geoms[(i // 2) % 7]), "shape": shape, "geom": geoms[(i // 2) % 7], "dims": [float(10 ** rng.uniform(1, 4)) for _ in range(3)],
                    "n": 400, "salt": int(rng.integers(0, 2**31))})
    for i in range(6 if tier == "quick" else 60):
        out.append({"cls": "list", "n_events": int(rng.integers(1, 7)), "loop": bool(i % 2), "draws": int(rng.integers(1, 25)), "salt": int(rng.integers(0, 2**31))})
    return out


def make_generator(case, shadow=False, energy=None):
    import pyrex.generation as pg
    import pyrex.particle as pp
    model = {"CTW": pp.CTWInteraction, "GQRS": pp.GQRSInteraction}[case.get("model", "CTW")]
    E = 10.0 ** case.get("log10E", 9.0) if energy is None else energy
    kw = dict(shadow=shadow, flavor_ratio=tuple(case.get("ratio", (1, 1, 1))), source=case.get("source", "cosmogenic"), interaction_model=model)
    d = case["dims"]
    if case.get("salt", 1) % 3 == 0:
        # the volume is re-declared after construction (its dimensions are plain public attributes): everything must follow
        if case["shape"] == "cyl":
            g_ = pg.CylindricalGenerator(d[0] * 1.7, d[2] * 0.6, E, **kw)
            g_.dr, g_.dz = d[0], d[2]
        else:
            g_ = pg.RectangularGenerator(d[0] * 1.7, d[1] * 0.6, d[2] * 1.3, E, **kw)
            g_.dx, g_.dy, g_.dz = d[0], d[1], d[2]
        return g_
    if case["shape"] == "cyl":
        return pg.CylindricalGenerator(d[0], d[2], E, **kw)
    return pg.RectangularGenerator(d[0], d[1], d[2], E, **kw)


def chord_in_volume(case, vtx, u):
    """Independent entry/exit parameters (t_in <= 0 <= t_out) of the line vtx + t u through the volume."""
    d = case["dims"]
    lo_t, hi_t = -np.inf, np.inf
    if case["shape"] == "cyl":
        a = u[0] ** 2 + u[1] ** 2
        if a > 0:
            b = 2 * (vtx[0] * u[0] + vtx[1] * u[1])
            c = vtx[0] ** 2 + vtx[1] ** 2 - d[0] ** 2
            disc = max(b * b - 4 * a * c, 0.0)
            q = -0.5 * (b + np.copysign(np.sqrt(disc), b)) if b != 0 else 0.5 * np.sqrt(disc)
            roots = sorted([q / a, c / q]) if q != 0 else [-np.sqrt(-c / a), np.sqrt(-c / a)]
            lo_t, hi_t = max(lo_t, roots[0]), min(hi_t, roots[1])
        slabs = [(2, -d[2], 0.0)]
    else:
        slabs = [(0, -d[0] / 2, d[0] / 2), (1, -d[1] / 2, d[1] / 2), (2, -d[2], 0.0)]
    for ax, lo, hi in slabs:
        if u[ax] != 0:
            t1, t2 = sorted([(lo - vtx[ax]) / u[ax], (hi - vtx[ax]) / u[ax]])
            lo_t, hi_t = max(lo_t, t1), min(hi_t, t2)
    return lo_t, hi_t


def on_boundary(case, p, tol):
    d = case["dims"]
    if case["shape"] == "cyl":
        r = np.hypot(p[0], p[1])
        side = abs(r - d[0]) <= tol and -d[2] - tol <= p[2] <= tol
        cap = (abs(p[2]) <= tol or abs(p[2] + d[2]) <= tol) and r <= d[0] + tol
        return bool(side or cap)
    inside = abs(p[0]) <= d[0] / 2 + tol and abs(p[1]) <= d[1] / 2 + tol and -d[2] - tol <= p[2] <= tol
    face = min(abs(abs(p[0]) - d[0] / 2), abs(abs(p[1]) - d[1] / 2), abs(p[2]), abs(p[2] + d[2])) <= tol
    return bool(inside and face)


def check_exit_points(v, case, gen, particle, clause_prefix=""):
    size = max(case["dims"])
    tol = 1e-6 * size
    vtx, u = np.asarray(particle.vertex, float), np.asarray(particle.direction, float)
    ent, ext = gen.get_exit_points(particle)
    ent, ext = np.asarray(ent, float), np.asarray(ext, float)
    t_in, t_out = chord_in_volume(case, vtx, u)
    detail = dict(vertex=vtx.tolist(), direction=u.tolist(), entry=ent.tolist(), exit=ext.tolist(), shape=case["shape"], min_nonzero_component=float(np.min(np.abs(u[u != 0]))),
                  vertex_on_boundary=on_boundary(case, vtx, 1e-9 * size))
    ok = v.check(on_boundary(case, ent, tol) and on_boundary(case, ext, tol), "entry and exit points lie on the volume boundary", **detail)
    for name, pt in (("entry", ent), ("exit", ext)):
        t = float(np.dot(pt - vtx, u))
        off = float(np.linalg.norm(pt - vtx - t * u))
        ok = v.close("entry and exit points lie on the particle's line of flight", off, tol, which=name, **detail) and ok
    ok = v.check(float(np.dot(ent - vtx, u)) <= tol and float(np.dot(ext - vtx, u)) >= -tol, "the vertex lies between entry and exit point", **detail) and ok
    ok = v.close("entry/exit == independent chord through the volume", max(float(np.linalg.norm(ent - (vtx + t_in * u))), float(np.linalg.norm(ext - (vtx + t_out * u)))), tol, **detail) and ok
    return ok, t_in, t_out


def run_dist(case, v):
    from scipy import stats
    import scipy.constants
    np.random.seed((case["salt"] + 5) % 2**32)
    seq = []
    if case["energy_callable"]:
        def energy():
            e = 10.0 ** np.random.uniform(case["log10E"] - 0.5, min(case["log10E"] + 0.5, 12))
            seq.append(e)
            return e
        gen = make_generator(case, energy=energy)
    else:
        gen = make_generator(case)
    rec = {"vertex": 0, "direction": 0, "type": 0}
    for name in ("get_vertex", "get_direction", "get_particle_type"):
        orig = getattr(gen, name)

        def wrapped(orig=orig, key=name.split("_", 1)[1].replace("particle_", "")):
            rec[key] += 1
            return orig()
        setattr(gen, name, wrapped)
    N = case["N"]
    c0 = gen.count
    Vx, D, T, E, parts = np.empty((N, 3)), np.empty((N, 3)), [], np.empty(N), []
    for i in range(N):
        p = gen.create_event().roots[0]
        Vx[i], D[i], E[i] = p.vertex, p.direction, p.energy
        T.append(p.id.name)
        if i < 300:
            parts.append(p)
    v.check(gen.count - c0 == N and rec["vertex"] == N and rec["direction"] == N and rec["type"] == N, "count increases by one per throw", count=gen.count - c0, throws=N, recorded=dict(rec))
    d = case["dims"]
    ps = {}
    if case["shape"] == "cyl":
        ps["vertex r^2 uniform"] = stats.kstest((Vx[:, 0] ** 2 + Vx[:, 1] ** 2) / d[0] ** 2, "uniform").pvalue
        ps["vertex azimuth uniform"] = stats.kstest((np.arctan2(Vx[:, 1], Vx[:, 0]) % (2 * np.pi)) / (2 * np.pi), "uniform").pvalue
        inside = bool(np.all(Vx[:, 0] ** 2 + Vx[:, 1] ** 2 <= d[0] ** 2 * (1 + 1e-12)) and np.all((Vx[:, 2] <= 0) & (Vx[:, 2] >= -d[2])))
        u3 = np.stack(((Vx[:, 0] ** 2 + Vx[:, 1] ** 2) / d[0] ** 2, (np.arctan2(Vx[:, 1], Vx[:, 0]) % (2 * np.pi)) / (2 * np.pi), -Vx[:, 2] / d[2]), axis=1)
    else:
        ps["vertex x uniform"] = stats.kstest(Vx[:, 0] / d[0] + 0.5, "uniform").pvalue
        ps["vertex y uniform"] = stats.kstest(Vx[:, 1] / d[1] + 0.5, "uniform").pvalue
        inside = bool(np.all(np.abs(Vx[:, 0]) <= d[0] / 2) and np.all(np.abs(Vx[:, 1]) <= d[1] / 2) and np.all((Vx[:, 2] <= 0) & (Vx[:, 2] >= -d[2])))
        u3 = np.stack((Vx[:, 0] / d[0] + 0.5, Vx[:, 1] / d[1] + 0.5, -Vx[:, 2] / d[2]), axis=1)
    v.check(inside, "every vertex lies inside the declared volume")
    ps["vertex depth uniform"] = stats.kstest(-Vx[:, 2] / d[2], "uniform").pvalue
    cells = np.clip((u3 * 4).astype(int), 0, 3)
    counts = np.bincount(cells[:, 0] * 16 + cells[:, 1] * 4 + cells[:, 2], minlength=64)
    ps["vertex 4x4x4 grid (joint uniformity)"] = stats.chisquare(counts).pvalue
    ps["direction cos(theta) uniform"] = stats.kstest((D[:, 2] + 1) / 2, "uniform").pvalue
    ps["direction azimuth uniform"] = stats.kstest((np.arctan2(D[:, 1], D[:, 0]) % (2 * np.pi)) / (2 * np.pi), "uniform").pvalue
    octs = np.bincount((D[:, 0] > 0) * 4 + (D[:, 1] > 0) * 2 + (D[:, 2] > 0) * 1, minlength=8)
    ps["direction octants"] = stats.chisquare(octs).pvalue
    # the outermost 1 % of each uniform variable (KS is blind to a truncated tail of that size at this N)
    def tail_z(u01, name):
        for side, mask in (("low", u01 < 0.01), ("high", u01 > 0.99)):
            k = int(mask.sum())
            z = (k - 0.01 * N) / np.sqrt(N * 0.01 * 0.99)
            v.close("distribution tail (outer 1 %%): %s" % name, abs(float(z)), 4.9, side=side, observed=k, expected=0.01 * N)
    tail_z((D[:, 2] + 1) / 2, "direction cos(theta)")
    tail_z(u3[:, 0], "vertex first coordinate (r^2 or x)")
    tail_z(u3[:, 2], "vertex depth")
    v.close("directions are unit vectors", float(np.max(np.abs(np.linalg.norm(D, axis=1) - 1))), 1e-12)
    ratio = np.array(case["ratio"]) / sum(case["ratio"])
    nb = [0.78, 0.61, 0.61] if case["source"] == "cosmogenic" else [0.5, 0.5, 0.5]
    expf = np.array([ratio[0] * nb[0], ratio[0] * (1 - nb[0]), ratio[1] * nb[1], ratio[1] * (1 - nb[1]), ratio[2] * nb[2], ratio[2] * (1 - nb[2])])
    from collections import Counter
    cnt = Counter(T)
    obs = np.array([cnt[n] for n in NAMES])
    v.check(int(obs[expf == 0].sum()) == 0 and obs.sum() == N, "flavours with zero ratio are never drawn", observed=obs.tolist())
    nz = expf > 0
    ps["flavour and nu/nubar ratios"] = stats.chisquare(obs[nz], expf[nz] * N).pvalue if nz.sum() > 1 else 1.0
    for name, pv in ps.items():
        v.check(pv >= 1e-6, "distribution: " + name, p_value=float(pv), n=N, shape=case["shape"], dims=d)
        v.metric("-log10 p: " + name, -np.log10(max(pv, 1e-300)))
    if case["energy_callable"]:
        v.check(len(seq) == N and np.array_equal(E, np.array(seq)), "energies are the supplied source's sequence")
    else:
        v.check(bool(np.all(E == 10.0 ** case["log10E"])), "energies are the supplied constant")
    # ---- weights, recomputed independently for the first 300 particles
    shells, R = prem.MODELS["PREM"]
    import pyrex.particle as pp_
    want_model = {"CTW": pp_.CTWInteraction, "GQRS": pp_.GQRSInteraction}[case.get("model", "CTW")]
    ref_inter = None
    for p in parts:
        v.check(type(p.interaction) is want_model, "particles interact according to the generator's configured interaction model", got=type(p.interaction).__name__, configured=want_model.__name__)
        # interaction length from the configured model for this particle type and energy (independent of the particle's own object)
        ref = pp_.Particle(p.id, p.vertex, p.direction, p.energy, interaction_model=want_model, interaction_type=p.interaction.kind)
        v.close("interaction length used for the weights is the configured model's", abs(ref.interaction.total_interaction_length - p.interaction.total_interaction_length) / ref.interaction.total_interaction_length, 1e-12,
                configured=want_model.__name__, got=type(p.interaction).__name__)
        L = p.interaction.total_interaction_length
        v.close("total interaction length == 1/(N_A sigma_total)", abs(L * scipy.constants.N_A * p.interaction.total_cross_section - 1), 1e-12)
        ex, Lch, jumps = prem.chord(shells, R, p.vertex, -np.asarray(p.direction))
        from vt.checks.c15 import _bound
        bound = _bound(shells, R, p.vertex, Lch, jumps, 500.0, ex) if Lch > 0 else 0.0
        s_exp = np.exp(-ex / L)
        s_tol = max(np.exp(-(ex - bound) / L) - s_exp, s_exp - np.exp(-(ex + bound) / L)) + 1e-12
        v.close("survival weight == exp(-column depth / interaction length)", abs(p.survival_weight - s_exp), s_tol, column=ex, L=float(L), weight=float(p.survival_weight))
        ok, t_in, t_out = check_exit_points(v, case, gen, p)
        Lice = L / 0.92 / 100
        i_exp = (t_out - t_in) / Lice * np.exp(-(-t_in) / Lice)
        v.close("interaction weight == (in-ice chord / L_ice) exp(-distance in ice / L_ice)", abs(p.interaction_weight - i_exp) / i_exp, 1e-6, weight=float(p.interaction_weight), expected=float(i_exp))
    return {"shape": case["shape"], "dims": d, "N": N, "p_values": {k: float(x) for k, x in ps.items()}}, True


def run_shadow(case, v):
    np.random.seed((case["salt"] + 7) % 2**32)
    # the energy source is a function whose successive values are known: every throw - the rejected ones included - must carry
    # the next value of the source (an energy kept over a rejection would bias the returned spectrum towards the source's)
    drawn, levels = [], [1e5, 1e11, 3e7, 1e9]

    def source_energy():
        drawn.append(levels[len(drawn) % len(levels)] * (1 + 1e-3 * (len(drawn) // len(levels) % 7)))
        return drawn[-1]
    gs = make_generator(case, shadow=True, energy=source_energy)
    rec, thrown_E = [], []
    orig = gs.get_weights

    def wrapped(particle):
        w = orig(particle)
        rec.append(float(w[0]))
        thrown_E.append(float(particle.energy))
        return w
    gs.get_weights = wrapped
    M, c0 = case["M"], gs.count
    for i in range(M):
        e = gs.create_event()
        v.check(e.roots[0].survival_weight == 1, "accepted events carry survival weight 1", weight=e.roots[0].survival_weight)
    thrown = gs.count - c0
    rec = np.array(rec)
    v.check(thrown == len(rec) and thrown >= M, "count increases by one for every throw including rejected ones", count=thrown, throws=len(rec), returned=M)
    if drawn:
        v.check(len(drawn) == len(thrown_E) and np.array_equal(np.array(drawn), np.array(thrown_E)), "every throw, rejected ones included, carries the next energy of the source",
                draws=len(drawn), throws=len(thrown_E), first_difference=int(np.argmax(np.array(drawn[:min(len(drawn), len(thrown_E))]) != np.array(thrown_E[:min(len(drawn), len(thrown_E))]))) if drawn and thrown_E else -1)
    var = float((rec * (1 - rec)).sum())
    z = (M - rec.sum()) / np.sqrt(var) if var > 0 else 0.0
    v.close("events are rejected with probability 1 - survival weight (Bernoulli z)", abs(float(z)), 5.0, returned=M, thrown=int(thrown), expected_accepts=float(rec.sum()))
    return {"shape": case["shape"], "returned": M, "thrown": int(thrown), "z": float(z)}, True


def run_exit(case, v):
    import pyrex.particle as pp
    rng = case_rng(case, case["salt"])
    gen = make_generator(case)
    d = case["dims"]

    class NI:
        def __init__(self, p, kind=None):
            self.em_frac, self.had_frac, self.kind, self.inelasticity = 0, 0, None, 0
    decided = 0
    for i in range(case["n"]):
        np.random.seed(int(rng.integers(0, 2**31)))
        vtx = np.asarray(gen.get_vertex(), float)
        u = np.asarray(gen.get_direction(), float)
        g = case["geom"]
        if g == "axis-parallel":
            u = np.zeros(3)
            u[int(rng.integers(0, 3))] = float(rng.choice([-1, 1]))
        elif g == "one-zero-component":
            u[int(rng.integers(0, 3))] = 0.0
        elif g == "grazing":
            u[int(rng.integers(0, 3))] = float(rng.choice([-1, 1])) * 10 ** rng.uniform(-18, -3)
        elif g == "vertex-on-boundary":
            if case["shape"] == "cyl":
                if rng.random() < 0.5:
                    s_ = d[0] / max(np.hypot(vtx[0], vtx[1]), 1e-300)
                    vtx[0], vtx[1] = vtx[0] * s_, vtx[1] * s_
                else:
                    vtx[2] = float(rng.choice([0.0, -d[2]]))
            else:
                ax = int(rng.integers(0, 3))
                vtx[ax] = [float(rng.choice([-1, 1])) * d[0] / 2, float(rng.choice([-1, 1])) * d[1] / 2, float(rng.choice([0.0, -d[2]]))][ax]
        if not np.any(u):
            continue
        if g == "past-an-edge":
            # the line of flight leaves the volume a hair (1e-9 ... 1e-5 of its size) away from an edge / the rim: the plane of
            # the neighbouring face is crossed just *outside* the volume, and that crossing is not an exit point
            size_ = max(d)
            delta = size_ * float(10 ** rng.uniform(-9, -5))
            if case["shape"] == "box":
                ax1, ax2 = [int(x) for x in rng.permutation(3)[:2]]
                lo_hi = {0: (-d[0] / 2, d[0] / 2), 1: (-d[1] / 2, d[1] / 2), 2: (-d[2], 0.0)}
                target = np.array([rng.uniform(*lo_hi[0]), rng.uniform(*lo_hi[1]), rng.uniform(*lo_hi[2])])
                target[ax1] = lo_hi[ax1][int(rng.integers(0, 2))]                                   # on a face ...
                edge_side = int(rng.integers(0, 2))
                target[ax2] = lo_hi[ax2][edge_side] + (delta if edge_side else -delta)             # ... just beyond the neighbouring face
            else:
                phi_ = float(rng.uniform(0, 2 * np.pi))
                target = np.array([(d[0] + delta) * np.cos(phi_), (d[0] + delta) * np.sin(phi_), float(rng.choice([0.0, -d[2]]))])   # on a cap plane, just outside the rim
            u = target - vtx
        if g == "integer-vertex":
            # whole-number coordinates handed over as Python ints / an int array (inside the volume)
            iv = [int(np.trunc(x)) for x in vtx]
            vtx = [tuple(iv), list(iv), np.array(iv, dtype=int)][int(rng.integers(0, 3))]
        p = pp.Particle("nu_e", vtx, u, 1e9, interaction_model=NI)     # Particle normalises the direction
        t_in, t_out = chord_in_volume(case, np.asarray(p.vertex, float), np.asarray(p.direction, float))
        if g == "vertex-on-boundary" and not (t_in <= 1e-9 * max(d) and t_out >= -1e-9 * max(d) and t_out - t_in > 1e-6 * max(d)):
            continue     # the line only touches the volume at the vertex: no chord to speak of
        try:
            check_exit_points(v, case, gen, p)
        except ValueError as e:
            if "exit points" not in str(e):
                raise
            uu = np.asarray(p.direction)
            v.check(False, "exit points are found for every particle inside the volume", vertex=p.vertex.tolist(), direction=uu.tolist(), shape=case["shape"],
                    min_nonzero_component=float(np.min(np.abs(uu[uu != 0]))), error=str(e), vertex_on_boundary=on_boundary(case, np.asarray(p.vertex, float), 1e-9 * max(d)))
        decided += 1
    return {"shape": case["shape"], "geometry": case["geom"], "particles": decided, "dims": d}, decided > 10


def run_list(case, v):
    import pyrex.generation as pg
    import pyrex.particle as pp

    class NI:
        def __init__(self, p, kind=None):
            self.em_frac, self.had_frac, self.kind, self.inelasticity = 0, 0, None, 0
    rng = case_rng(case, case["salt"])
    items = []
    for i in range(case["n_events"]):
        p = pp.Particle("nu_mu", (i, 0, -10), (0, 0, 1), 1e6 + i, interaction_model=NI)
        items.append(p if rng.random() < 0.5 else pp.Event(p))
    single = case["n_events"] == 1 and rng.random() < 0.5
    lg = pg.ListGenerator(items[0] if single else list(items), loop=case["loop"])
    got = []
    stopped_at = None
    for k in range(case["draws"]):
        try:
            ev = lg.create_event()
        except StopIteration:
            stopped_at = k
            break
        got.append(ev)
        v.check(lg.count == k + 1, "list generator count == number of events handed out", count=lg.count, handed=k + 1)
    n = case["n_events"]
    for k, ev in enumerate(got):
        want = items[k % n]
        root = want if isinstance(want, pp.Particle) else want.roots[0]
        v.check(isinstance(ev, pp.Event) and ev.roots[0] is root, "k-th event is events[k mod n]", k=k, n=n)
    if case["loop"]:
        v.check(stopped_at is None, "a looping list generator never stops", stopped_at=stopped_at)
    else:
        v.check((stopped_at == n) if case["draws"] > n else stopped_at is None, "a non-looping list generator stops after its last event", stopped_at=stopped_at, n=n, draws=case["draws"])
    return {"n_events": n, "loop": case["loop"], "draws": case["draws"], "stopped_at": stopped_at}, True


def run_case(case):
    v = V()
    kind = case["cls"].split(":")[0]
    sample, nontrivial = {"dist": run_dist, "shadow": run_shadow, "exit": run_exit, "list": run_list}[kind](case, v)
    return v.result(decided=True, nontrivial=nontrivial, sample=sample)


def kf_cylinder_tiny_component(case, viol):
    """Cylinder exit points for a direction with a tiny non-zero component (slope overflow / mixed-sign test)."""
    d = viol["detail"]
    return case.get("shape") == "cyl" and d.get("shape") == "cyl" and 0 < d.get("min_nonzero_component", 1.0) < 1e-6


def kf_cylinder_vertex_on_boundary(case, viol):
    """Vertex exactly on the cylinder's surface: the sign test (pt - vertex)/direction sees round-off of mixed sign."""
    d = viol["detail"]
    return case.get("shape") == "cyl" and d.get("shape") == "cyl" and d.get("vertex_on_boundary") is True
