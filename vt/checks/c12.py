"""C12 — every way of reading or continuing a file yields the same event stream.

Monitor: for one generated file (events with *different* row counts, rejected adds in between) every access path is
recorded: iteration with slice_range in {1,2,3,n-1,n,n+5,None}, integer indices -n..n-1, slices with random start <
stop and step 1..4 and their negative spellings; the same add sequence split over 1-4 append sessions ('a' / 'r+'); a
FileGenerator over 1-3 files and several slice_range values.  Oracle: the sequential single-chunk pass of the same file
and the C11 shadow model.
"""
import os
import shutil
import tempfile
import numpy as np
from vt.util import V, case_rng, rng_for
from vt import h5common as h5

PROPERTY = "C12"
TITLE = "Every way of reading or continuing a file yields the same stream"
TECHNIQUE = ('runtime monitoring: one stored event stream observed through every access path (chunk sizes, integer and slice indexing, held events, interleaved iterators, append sessions, FileGenerator) and compared with the sequential pass and the shadow model')
ANCHORS = ["pyrex.io:EventIterator._load_data", "pyrex.io:HDF5Reader.__getitem__", "pyrex.io:HDF5Reader.__iter__", "pyrex.io:HDF5Writer.open",
           "pyrex.generation:FileGenerator._load_events", "pyrex.generation:FileGenerator._next_file", "pyrex.generation:FileGenerator.create_event"]
RULE = ("one case = one add sequence of 2-12 events with different particle / ray / waveform counts (and rejected adds), "
        "written once in a single session and once split over 1-4 append sessions, read through every access path, plus a "
        "FileGenerator over 1-3 such files with slice_range in {1,2,3,n,100}; non-trivial = n >= 3 events with at least two "
        "different row counts and all access paths compared; distinct = hash of the case")
ASSUMPTIONS = ["the sequential pass with the default chunk size is the reference stream (itself checked against the shadow model)"]
BUDGET = {"quick": 900, "thorough": 7200}
CASE_TIMEOUT = {"quick": 300, "thorough": 600}


def gen_cases(tier, seed):
    rng = rng_for(PROPERTY, seed)
    n = 120 if tier == "quick" else 3000
    out = []
    for i in range(n):
        nant = int(rng.integers(1, 4))
        opts, req = h5.random_options(rng)
        if i % 3 == 0:
            opts, req = {k: True for k in h5.KEYS}, False
        nev = int(rng.integers(2, 13))
        cuts = sorted(set(int(x) for x in rng.integers(1, nev, size=int(rng.integers(0, 4))))) if nev > 1 else []
        out.append({"cls": ["access-paths", "append-sessions", "file-generator"][i % 3], "nant": nant, "noisy": bool(rng.integers(0, 2)), "opts": opts, "req": req,
                    "plan": h5.plan_events(rng, nev, nant), "cuts": cuts, "append_mode": ["a", "r+"][int(rng.integers(0, 2))],
                    "n_files": int(rng.integers(1, 4)), "salt": int(rng.integers(0, 2**31)), "trailing_reject": bool(i % 2)})
    return out


def write_file(path, case, ants, plan, cuts=(), mode2="a", index_offset=0):
    """Write `plan` to `path`, re-opening the file in append mode at every cut.  Returns the list of model records."""
    opts, req = case["opts"], case["req"]
    model = []
    w = h5.open_writer(path, "w", opts, req, ants)
    i = index_offset
    def trailing_refusal(k_):
        # a refused add as the very last call of a session (TypeError kind when triggers are written, otherwise "not an event")
        if not case.get("trailing_reject"):
            return True
        st_ = dict(plan[min(k_, len(plan) - 1)], bad=6 if opts["triggers"] else 5)
        rec_, _ = h5.do_add(w, ants, st_, 900 + k_, opts, req, only_bad=True)
        return rec_ != "accepted-bad"
    for k, step in enumerate(plan):
        if k in cuts:
            if not trailing_refusal(k):
                w.close()
                return None
            w.close()
            w = h5.open_writer(path, mode2, opts, req, ants)
        rec, _ = h5.do_add(w, ants, step, i, opts, req)
        if rec == "accepted-bad":
            w.close()
            return None
        model.append(rec)
        i += 1
    if not trailing_refusal(len(plan)):
        w.close()
        return None
    w.close()
    return model


def run_case(case):
    from pyrex.io import File
    v = V()
    rng = case_rng(case, case["salt"])
    np.random.seed(case["salt"] % 2**32)
    d = tempfile.mkdtemp(prefix="vt_c12_")
    cfg = {"options": case["opts"], "require_trigger": case["req"], "antennas": case["nant"], "events": len(case["plan"])}
    try:
        ants = h5.make_antennas(case["nant"], case["noisy"])
        fn = os.path.join(d, "single.h5")
        model = write_file(fn, case, ants, case["plan"])
        if model is None:
            return v.result(decided=False, nontrivial=False, skip="planned rejected add was accepted")
        n = len(model)
        with File(fn, "r") as f:
            if not v.check(len(f) == n, "the file holds as many events as were accepted", stored=len(f), accepted=n, **cfg):
                return v.result(decided=True, nontrivial=True, sample=cfg)
            base = [h5.getrec(e) for e in f]
        for k, (m, o) in enumerate(zip(model, base)):
            prob = h5.cmp_model(m, o, case["nant"], where="sequential pass, event %d" % k)
            if prob:
                v.check(False, "sequential pass == what was recorded (C11 shadow model): " + prob[0], **dict(cfg, **prob[1]))
                return v.result(decided=True, nontrivial=True, sample=cfg)
        sizes = {(len(m["energies"]), m["maxw"]) for m in model}
        paths = 0
        if case["cls"] == "access-paths":
            for sr in sorted({1, 2, 3, max(n - 1, 1), n, n + 5}) + [None]:
                with File(fn, "r", slice_range=sr) if sr is not None else File(fn, "r") as f:
                    got = [h5.getrec(e) for e in f]
                    paths += 1
                    ok = len(got) == n
                    diff = None if not ok else next((("event %d" % k, h5.same_obs(a, b)) for k, (a, b) in enumerate(zip(base, got)) if h5.same_obs(a, b)), None)
                    v.check(ok and diff is None, "iteration with any chunk size yields the sequential stream", slice_range=sr, yielded=len(got), first_difference=diff, **cfg)
                    for idx in range(-n, n):
                        g = h5.getrec(f[idx])
                        paths += 1
                        v.check(h5.same_obs(base[idx % n], g) is None, "integer indexing (also negative) returns that event", index=idx, slice_range=sr, field=h5.same_obs(base[idx % n], g), **cfg)
                    # event objects fetched first and read afterwards / two iterations interleaved: each keeps showing its own event
                    order = [int(x) for x in rng.permutation(n)[:min(n, 6)]]
                    held = [f[i] for i in order]
                    for i, e in zip(order, held):
                        paths += 1
                        v.check(h5.same_obs(base[i], h5.getrec(e)) is None, "event objects fetched earlier keep showing their own event after others were fetched", index=i,
                                fetched_order=order, slice_range=sr, field=h5.same_obs(base[i], h5.getrec(e)), **cfg)
                    k_ = max(1, n // 2)
                    for j, (e1, e2) in enumerate(zip(f[0:k_], f[n - k_:n])):
                        paths += 1
                        r2, r1 = h5.getrec(e2), h5.getrec(e1)
                        v.check(h5.same_obs(base[j], r1) is None and h5.same_obs(base[n - k_ + j], r2) is None, "two slices iterated in step yield their own events", position=j,
                                slice_range=sr, field=h5.same_obs(base[j], r1) or h5.same_obs(base[n - k_ + j], r2), **cfg)
                    for j, e in enumerate(f):
                        other = f[(j * 2 + 1) % n]
                        r_o, r_e = h5.getrec(other), h5.getrec(e)
                        paths += 1
                        v.check(h5.same_obs(base[j], r_e) is None and h5.same_obs(base[(j * 2 + 1) % n], r_o) is None, "indexing inside an iteration disturbs neither", position=j,
                                slice_range=sr, field=h5.same_obs(base[j], r_e) or h5.same_obs(base[(j * 2 + 1) % n], r_o), **cfg)
                    for _ in range(8):
                        a_ = int(rng.integers(0, n))
                        b_ = int(rng.integers(a_ + 1, n + 1))
                        st = int(rng.integers(1, 5))
                        spell = int(rng.integers(0, 4))
                        aa = a_ - n if spell in (1, 3) else a_
                        bb = b_ - n if (spell in (2, 3) and b_ < n) else b_
                        if spell == 0 and rng.random() < 0.3:
                            sl = slice(None if a_ == 0 else aa, None if b_ == n else bb, None if st == 1 else st)
                        else:
                            sl = slice(aa, bb, st)
                        got = [h5.getrec(e) for e in f[sl]]
                        paths += 1
                        exp = base[a_:b_:st]
                        ok = len(got) == len(exp)
                        diff = None if not ok else next((h5.same_obs(x, y) for x, y in zip(exp, got) if h5.same_obs(x, y)), None)
                        v.check(ok and diff is None, "slicing with any in-range start, stop and positive step returns those events", slice=[sl.start, sl.stop, sl.step],
                                slice_range=sr, returned=len(got), expected=len(exp), field=diff, **cfg)
        elif case["cls"] == "append-sessions":
            ants2 = h5.make_antennas(case["nant"], case["noisy"])
            np.random.seed(case["salt"] % 2**32)
            fn2 = os.path.join(d, "sessions.h5")
            model2 = write_file(fn2, case, ants2, case["plan"], cuts=case["cuts"], mode2=case["append_mode"])
            if model2 is None:
                return v.result(decided=False, nontrivial=False, skip="planned rejected add was accepted")
            with File(fn2, "r") as f:
                ok = v.check(len(f) == n, "a file written in several append sessions holds the same number of events", stored=len(f), expected=n, cuts=case["cuts"], mode=case["append_mode"], **cfg)
                if ok:
                    got = [h5.getrec(e) for e in f]
                    paths += 1
                    for k, (m, o) in enumerate(zip(model2, got)):
                        prob = h5.cmp_model(m, o, case["nant"], where="append sessions, event %d" % k)
                        v.check(prob is None, "a file written in several append sessions reads back like one written in a single session",
                                **dict(cfg, cuts=case["cuts"], mode=case["append_mode"], **(prob[1] if prob else {}), problem=prob[0] if prob else None))
                    # deterministic content (everything but the random noise realisation) equals the single-session file event for event
                    for k, (a, b) in enumerate(zip(base, got)):
                        for key in ("energies", "kinds", "ids", "vertices", "weights", "triggered", "rays", "comps"):      # not "details": the interaction draws of two separate writes differ
                            v.check(h5._norm(a[key]) == h5._norm(b[key]), "append-session file == single-session file, event for event", event=k, field=key, cuts=case["cuts"], **cfg)
        else:
            from pyrex.generation import FileGenerator
            files, models = [fn], [model]
            for j in range(1, case["n_files"]):
                antsj = h5.make_antennas(case["nant"], case["noisy"])
                fj = os.path.join(d, "more%d.h5" % j)
                mj = write_file(fj, case, antsj, case["plan"][:max(2, len(case["plan"]) - j)], index_offset=100 * j)
                if mj is None:
                    return v.result(decided=False, nontrivial=False, skip="planned rejected add was accepted")
                files.append(fj)
                models.append(mj)
            stored = [m for mm in models for m in mm]
            if all(len(m["energies"]) > 0 for m in stored):
                for sr in (1, 2, 3, n, 100):
                    fg = FileGenerator(files if len(files) > 1 or rng.random() < 0.5 else files[0], slice_range=sr)
                    paths += 1
                    c0 = fg.count
                    thrown = 0
                    for k, m in enumerate(stored):
                        try:
                            ev = fg.create_event()
                        except StopIteration:
                            v.check(False, "file generator replays every stored event before stopping", stopped_after=k, stored=len(stored), slice_range=sr, **cfg)
                            break
                        ps = list(ev)
                        thrown += m["thrown"]
                        ok = (len(ps) == len(m["energies"]) and [float(p.energy) for p in ps] == m["energies"] and [p.interaction.kind.name for p in ps] == m["kinds"]
                              and [int(p.id.value) for p in ps] == m["ids"] and [[float(x) for x in p.vertex] for p in ps] == m["vertices"]
                              and [[float(p.survival_weight), float(p.interaction_weight)] for p in ps] == [w_[:2] for w_ in m["weights"]])     # survival and interaction weight; an explicitly forced total weight is stored but not re-imposed by the generator (noted in DESIGN 8.3)
                        v.check(ok, "file generator replays the stored particles (type, vertex, energy, interaction, weights) in order", event=k, slice_range=sr, files=len(files),
                                got=[float(p.energy) for p in ps], expected=m["energies"], **cfg)
                    else:
                        try:
                            fg.create_event()
                            v.check(False, "file generator stops after the last stored event", slice_range=sr, **cfg)
                        except StopIteration:
                            v.check(True, "file generator stops after the last stored event")
                    v.events += 1
        sample = dict(cfg, access_paths=paths, kind=case["cls"], row_count_classes=len(sizes))
        return v.result(decided=True, nontrivial=n >= 3 and len(sizes) >= 2 and paths > 0, sample=sample)
    finally:
        shutil.rmtree(d, ignore_errors=True)


def fx_chunk_split(case, viol):
    return viol["clause"].startswith(("slicing with any in-range", "iteration with any chunk size"))


def fx_negative_stop(case, viol):
    return viol["clause"] == "unexpected exception from pyrex" and "zero-size" in viol["detail"].get("message", "")
