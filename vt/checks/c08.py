"""C08 — antenna response: linear, rotation-covariant, divides fields by the antenna factor.

Monitor: apply_response / receive at the public boundary, with recorders on the antenna's directional_gain,
polarization_gain and frequency_response (argument capture).  Oracle: independent gain x FFT-filter model
(filter from C05's reference), joint SO(3) rotations (second execution), dipole closed forms.
"""
import numpy as np
import scipy.fft
from vt.util import V, EPS, case_rng, rng_for
from vt import gen

PROPERTY = "C08"
TITLE = "Antenna response"
TECHNIQUE = ('runtime monitoring: apply_response/receive executions with recorders on the gain functions, decided by an independent gain x FFT-filter model (closed-form dipole band-pass), joint SO(3) rotations and re-use of the same antenna object')
ANCHORS = ["pyrex.antenna:Antenna.apply_response", "pyrex.antenna:Antenna.receive", "pyrex.antenna:Antenna._convert_to_antenna_coordinates",
           "pyrex.antenna:DipoleAntenna.directional_gain", "pyrex.antenna:DipoleAntenna.polarization_gain",
           "pyrex.antenna:DipoleAntenna.frequency_response", "pyrex.detector:AntennaSystem.apply_response", "pyrex.detector:AntennaSystem.receive"]
RULE = ("one case = (antenna kind: DipoleAntenna / Antenna subclass with direction-, azimuth- and polarization-dependent "
        "gains / the same inside an AntennaSystem / plain Antenna; random orthonormal axes, position, antenna factor, "
        "efficiency; arrival direction class generic/along +-axis/in the equatorial plane, non-unit; polarization "
        "generic/parallel to the direction/along the axis, non-unit; signal type field or voltage, N in {32,65,128,513}; "
        "a random joint rotation); non-trivial = response non-zero so that model, linearity and covariance compare real "
        "waveforms; distinct = hash of the case")
ASSUMPTIONS = ["exactly along the antenna axis the azimuth is degenerate, so there only azimuth-independent gains are used"]
BUDGET = {"quick": 300, "thorough": 3600}
KINDS = ["dipole", "gain", "system", "plain"]


def gen_cases(tier, seed):
    rng = rng_for(PROPERTY, seed)
    n = 800 if tier == "quick" else 30000
    out = []
    for i in range(n):
        out.append({"cls": KINDS[i % 4] + ":" + ["generic", "axis", "equator", "pol-parallel"][(i // 4) % 4],
                    "kind": KINDS[i % 4], "geom": ["generic", "axis", "equator", "pol-parallel"][(i // 4) % 4],
                    "N": int(rng.choice([32, 65, 128, 513])), "vtype": ["field", "voltage"][int(rng.integers(0, 2))],
                    "force_real": bool(rng.integers(0, 2)),
                    # one case in four: antenna factors from 1e-3 to 1e5 per metre and efficiencies down to 1e-9 (total gains far below 1e-8)
                    "af": float(rng.uniform(0.5, 5)) if (i // 4) % 3 else float(10 ** rng.uniform(-3, 5)), "eff": float(rng.uniform(0.1, 1)) if (i // 4) % 3 else float(10 ** rng.uniform(-9, 0))})
    return out


def ref_filter(vals, dt, H, force_real, keep_complex=False):
    N = len(vals)
    fr = scipy.fft.fftfreq(2 * N, d=dt)
    h = np.asarray(H(np.abs(fr) if force_real else fr), dtype=complex)
    if force_real:
        h = np.where(fr < 0, np.conj(h), h)
    out = scipy.fft.ifft(h * scipy.fft.fft(np.concatenate((vals, np.zeros(N)))))[:N]
    return out if keep_complex else np.real(out)


def run_case(case):
    import pyrex.antenna as pa
    import pyrex.detector as pd
    from pyrex.signals import Signal
    v = V()
    rng = case_rng(case)
    kind, geom = case["kind"], case["geom"]
    phi_dep = 0.0 if geom == "axis" else 0.2
    calls = {"dgain": [], "pgain": [], "freq": 0}
    phase0 = 0.0 if rng.random() < 0.4 else float(rng.uniform(-np.pi, np.pi))
    # a complex directional gain (amplitude and phase of the antenna pattern) in one case out of four: the voltage is then the
    # *real* filtered signal times that complex number, not the real part of the product
    cgain = 1.0 if rng.random() < 0.75 else complex(np.exp(1j * float(rng.uniform(-np.pi, np.pi))))

    class GainAnt(pa.Antenna):
        def directional_gain(self, theta, phi):
            calls["dgain"].append((float(theta), float(phi)))
            return (0.3 + np.cos(theta) ** 2 + phi_dep * np.cos(phi)) * cgain

        def polarization_gain(self, polarization):
            calls["pgain"].append(np.array(polarization, float))
            return np.dot(polarization, self.x_axis) + 0.5 * np.dot(polarization, self.z_axis)

        def frequency_response(self, frequencies):
            calls["freq"] += 1
            # with a constant phase rotation the response is not Hermitian by itself: force_real then decides the output
            return np.exp(1j * phase0) / (1 + 1j * np.asarray(frequencies) / 3e8)

    R0 = gen.random_rotation(rng)
    z, x = R0[:, 2], R0[:, 0]
    pos = rng.normal(size=3) * 100
    af, eff = case["af"], case["eff"]

    # dipole band: random centre and width (the default ARA-like 250 +- 150 MHz in one case out of four)
    if rng.random() < 0.25:
        fc_d, bw_d = 250e6, 300e6
    else:
        fc_d = float(rng.uniform(100e6, 600e6))
        bw_d = float(rng.uniform(0.1, 1.5) * fc_d)
    fl_d, fh_d = fc_d - bw_d / 2, fc_d + bw_d / 2

    def mk(zz, xx):
        if kind == "dipole":
            return pa.DipoleAntenna("d", pos, fc_d, bw_d, 300, 50, orientation=zz, noisy=False)
        if kind == "gain":
            return GainAnt(pos, z_axis=zz, x_axis=xx, antenna_factor=af, efficiency=eff, noisy=False)
        if kind == "system":
            return pd.AntennaSystem(GainAnt(pos, z_axis=zz, x_axis=xx, antenna_factor=af, efficiency=eff, noisy=False))
        return pa.Antenna(pos, z_axis=zz, x_axis=xx, antenna_factor=af, efficiency=eff, noisy=False)

    ant = mk(z, x)
    base = ant.antenna if kind == "system" else ant
    N = case["N"]
    t = rng.uniform(-1e-6, 1e-6) + np.arange(N) * 1e-9
    vt = case["vtype"]
    s = Signal(t, rng.normal(size=N), vt)
    s2 = Signal(t, rng.normal(size=N), vt)
    if geom == "axis":
        d = base.z_axis * float(rng.choice([-1, 1])) * rng.uniform(0.1, 10)
    elif geom == "equator":
        w = np.cross(base.z_axis, rng.normal(size=3))
        d = w * rng.uniform(0.1, 10) / np.linalg.norm(w)
    else:
        d = rng.normal(size=3) * rng.uniform(0.1, 10)
    pol = rng.normal(size=3) * rng.uniform(0.1, 10)
    if geom == "pol-parallel":
        pol = d * rng.uniform(0.2, 3) * float(rng.choice([-1, 1]))
    fr_ = case["force_real"]
    before = (s.times.copy(), s.values.copy(), s.value_type)
    if kind == "dipole":
        # another dipole with another band, used first on the very same time grid, must leave this one's response alone
        other = pa.DipoleAntenna("o", pos + 1.0, fc_d * 1.9, bw_d * 0.4, 300, 50, orientation=z, noisy=False)
        other.apply_response(Signal(t, s.values, vt), direction=d, polarization=pol, force_real=fr_)
    o = ant.apply_response(s, direction=d, polarization=pol, force_real=fr_)
    ov = np.array(o.values)
    v.check(o.value_type == Signal.Type.voltage, "response is a voltage", got=str(o.value_type))
    v.check(np.array_equal(o.times, t) and o is not s, "response is a new signal on the input grid")
    v.check(np.array_equal(s.times, before[0]) and np.array_equal(s.values, before[1]) and s.value_type == before[2], "the incoming signal is left untouched")
    # ---- independent model: filter x directional gain x polarization gain x efficiency (/ antenna factor for fields)
    dn, pn = d / np.linalg.norm(d), pol / np.linalg.norm(pol)
    y = np.cross(base.z_axis, base.x_axis)
    orig = -dn
    th = float(np.arccos(np.clip(np.dot(orig, base.z_axis), -1, 1)))
    phi = float(np.arctan2(np.dot(orig, y), np.dot(orig, base.x_axis)) % (2 * np.pi))
    # arccos is ill-conditioned next to the axis: d(theta) ~ eps / sin(theta), at most ~sqrt(eps)
    th_tol = 1e-12 + 4 * EPS / max(np.sin(th), np.sqrt(EPS))
    if kind == "dipole":
        dg, pg = np.sin(th), float(np.dot(pn, base.z_axis))
        # first-order analog Butterworth band-pass between the band edges, written out: s B / (s^2 + s B + w0^2), s = i 2 pi f
        H = lambda f: 1j * np.asarray(f) * (fh_d - fl_d) / (fl_d * fh_d - np.asarray(f) ** 2 + 1j * np.asarray(f) * (fh_d - fl_d))
        v.close("dipole frequency response == first-order Butterworth band-pass over its band", float(np.max(np.abs(np.asarray(base.frequency_response(np.array([0.0, 1e7, fl_d, fc_d, fh_d, 2e9]))) - H(np.array([0.0, 1e7, fl_d, fc_d, fh_d, 2e9]))))), 1e-12, band=[fl_d, fh_d])
        # a dipole's gains as stated: sin(theta) from its axis, projection of the polarization on its axis
        v.close("dipole directional gain == sin(angle from its axis)", abs(base.directional_gain(theta=th, phi=phi) - np.sin(th)), 1e-12)
        v.close("dipole polarization gain == projection on its axis", abs(base.polarization_gain(pn) - np.dot(pn, base.z_axis)), 1e-12)
    elif kind in ("gain", "system"):
        dg = (0.3 + np.cos(th) ** 2 + phi_dep * np.cos(phi)) * cgain
        pg = float(np.dot(pn, base.x_axis) + 0.5 * np.dot(pn, base.z_axis))
        H = lambda f: np.exp(1j * phase0) / (1 + 1j * np.asarray(f) / 3e8)
        # the recorders saw the arguments the gains were asked for
        if v.check(len(calls["dgain"]) >= 1 and len(calls["pgain"]) >= 1, "gain functions are consulted"):
            th_c, ph_c = calls["dgain"][0]
            v.close("directional gain is asked for the arrival direction in antenna coordinates (theta)", abs(th_c - th), th_tol)
            if geom != "axis":
                dphi = abs((ph_c - phi + np.pi) % (2 * np.pi) - np.pi)
                v.close("directional gain is asked for the arrival direction in antenna coordinates (phi)", dphi * np.sin(th), 1e-9)
            v.close("polarization gain is asked for the unit polarization", float(np.max(np.abs(calls["pgain"][0] - pn))), 1e-12)
    else:
        dg, pg = 1.0, 1.0
        H = lambda f: np.ones(len(f))
    fac = dg * pg * base.efficiency / (base.antenna_factor if vt == "field" else 1.0)
    exp = ref_filter(s.values, t[1] - t[0], H, fr_) * fac
    sc_nat = float(np.max(np.abs(s.values))) * max(abs(base.efficiency / (base.antenna_factor if vt == "field" else 1.0)), 1e-300)
    v.close("response == filter x directional gain x polarization gain x efficiency (/ antenna factor for fields)",
            float(np.max(np.abs(exp - ov))) / sc_nat, 1e-10 + 3 * th_tol, kind=kind, vtype=vt, geom=geom)
    sc = max(float(np.max(np.abs(ov))), 1e-3 * sc_nat)
    # ---- without a direction (or without a polarization) the corresponding gain is 1
    for label, kw_, fac_ in (("no direction", dict(polarization=pol), pg), ("no polarization", dict(direction=d), dg), ("neither", {}, 1.0)):
        got_n = np.array(ant.apply_response(s, force_real=fr_, **kw_).values)
        exp_n = ref_filter(s.values, t[1] - t[0], H, fr_) * fac_ * base.efficiency / (base.antenna_factor if vt == "field" else 1.0)
        v.close("a gain whose argument is not given counts as 1", float(np.max(np.abs(exp_n - got_n))) / sc_nat, 1e-10 + 3 * th_tol, omitted=label, kind=kind, vtype=vt)
    # ---- linear in the signal
    a_, b_ = rng.normal(size=2)
    comb = Signal(t, a_ * s.values + b_ * s2.values, vt)
    oc = ant.apply_response(comb, direction=d, polarization=pol, force_real=fr_).values
    o2 = ant.apply_response(s2, direction=d, polarization=pol, force_real=fr_).values
    v.close("response is linear in the signal", float(np.max(np.abs(oc - (a_ * ov + b_ * o2)))) / sc_nat, 1e-10 * (1 + abs(a_) + abs(b_)))
    # ---- rotation covariance
    R = gen.random_rotation(rng)
    ant2 = mk(R @ z, R @ x)
    orr = ant2.apply_response(s, direction=R @ d, polarization=R @ pol, force_real=fr_).values
    v.close("response unchanged under a joint rotation of axes, direction and polarization", float(np.max(np.abs(orr - ov))) / sc_nat, 1e-10 + 3 * th_tol, kind=kind, geom=geom)
    # ---- inputs that are neither field nor voltage are rejected
    from pyrex.signals import EmptySignal, FunctionSignal
    for bad in ("undefined", "power", None):
        for kind_, mk_ in (("Signal", lambda b_: Signal(t, np.ones(N), b_)), ("EmptySignal", lambda b_: EmptySignal(t, b_)), ("FunctionSignal", lambda b_: FunctionSignal(t, np.cos, b_))):
            try:
                ant.apply_response(mk_(bad), direction=d, polarization=pol)
                v.check(False, "value types other than field/voltage are rejected", vtype=str(bad), signal_class=kind_)
            except ValueError:
                v.check(True, "value types other than field/voltage are rejected")
    # ---- a function-backed signal is answered like the sampled signal with the same values, as often as it is asked, and is left alone
    fs = FunctionSignal(t, lambda x: np.sin(2e8 * x) * np.exp(-((x - t[N // 2]) / 2e-8) ** 2), vt)
    fvals = np.array(fs.values)
    want_f = np.array(ant.apply_response(Signal(t, fvals, vt), direction=d, polarization=pol, force_real=fr_).values)
    for rep_ in range(2):
        got_f = np.array(ant.apply_response(fs, direction=d, polarization=pol, force_real=fr_).values)
        v.close("a function-backed signal gets the response of the sampled signal with the same values, every time it is asked", float(np.max(np.abs(got_f - want_f))) / max(float(np.max(np.abs(fvals))) * max(abs(base.efficiency / (base.antenna_factor if vt == "field" else 1.0)), 1e-300), 1e-300),
                1e-9 + 3 * th_tol, repetition=rep_, kind=kind,
                # mechanism observables (kf_complex_gain_function_signal): the gain has an imaginary part, and what comes back is exactly the real part of gain x signal
                gain_is_complex=bool(abs(np.imag(fac)) > 0),
                equals_real_part_of_gain_times_signal=bool(float(np.max(np.abs(got_f - np.real(fac * ref_filter(fvals, t[1] - t[0], H, fr_, keep_complex=True))))) <= (1e-9 + 3 * th_tol) * max(float(np.max(np.abs(fvals))) * max(abs(base.efficiency / (base.antenna_factor if vt == "field" else 1.0)), 1e-300), 1e-300)))
    v.close("the incoming function-backed signal is left untouched", float(np.max(np.abs(np.array(fs.values) - fvals))), 1e-15 * max(1.0, float(np.max(np.abs(fvals)))))
    em_ = ant.apply_response(EmptySignal(t, vt), direction=d, polarization=pol, force_real=fr_)
    v.check(np.array_equal(em_.times, t) and not np.any(em_.values) and em_.value_type == Signal.Type.voltage, "an empty signal of an accepted type gives an all-zero voltage on its grid")
    # ---- receive stores the sum of the responses to the (signal, polarization) pairs, delegation through a system
    sigs = base.signals
    n0 = len(sigs)
    ret = ant.receive([s, s2], direction=d, polarization=[pol, pn], force_real=fr_)
    v.check(len(base.signals) == n0 + 1, "receive appends exactly one signal", before=n0, after=len(base.signals))
    tot = np.array(base.signals[-1].values)
    e2 = ant.apply_response(s, direction=d, polarization=pol, force_real=fr_).values + ant.apply_response(s2, direction=d, polarization=pn, force_real=fr_).values
    v.close("receive stores the sum of the individual responses", float(np.max(np.abs(tot - e2))) / sc_nat, 1e-12)
    ant.receive(s, direction=d, polarization=pol, force_real=fr_)
    v.close("receive of a single signal stores its response", float(np.max(np.abs(np.array(base.signals[-1].values) - ov))) / sc_nat, 1e-12)
    try:
        ant.receive([s, s2], direction=d, polarization=[pol])
        v.check(False, "receive rejects mismatched numbers of signals and polarizations")
    except ValueError:
        v.check(True, "receive rejects mismatched numbers of signals and polarizations")
    if kind == "system":
        direct = base.apply_response(s, direction=d, polarization=pol, force_real=fr_).values
        v.close("antenna system delegates the response to its antenna", float(np.max(np.abs(direct - ov))) / sc_nat, 1e-15)
    # ---- the same antenna object re-oriented / re-parameterised after it has been used must answer like a fresh one
    R2 = gen.random_rotation(rng)
    z2, x2 = R2 @ z, R2 @ x
    ant.set_orientation(z_axis=z2, x_axis=x2)
    fresh = mk(z2, x2)
    got2 = np.array(ant.apply_response(s, direction=d, polarization=pol, force_real=fr_).values)
    want2 = np.array(fresh.apply_response(s, direction=d, polarization=pol, force_real=fr_).values)
    v.close("after set_orientation the used antenna responds like a freshly oriented one", float(np.max(np.abs(got2 - want2))) / sc_nat, 1e-10 + 3 * th_tol, kind=kind, geom=geom)
    if kind != "dipole":
        base.efficiency = eff * 0.5
        base.antenna_factor = af * 2.0
        got3 = np.array(ant.apply_response(s, direction=d, polarization=pol, force_real=fr_).values)
        v.close("changing efficiency / antenna factor of a used antenna takes effect", float(np.max(np.abs(got3 - want2 * (0.5 if vt == "voltage" else 0.25)))) / sc_nat, 1e-10 + 3 * th_tol, kind=kind, vtype=vt)
    sample = {"kind": kind, "geometry": geom, "z_axis": base.z_axis.tolist(), "direction": d.tolist(), "polarization": pol.tolist(), "value_type": vt,
              "theta_deg": float(np.degrees(th)), "factor": float(fac), "peak_response": float(np.max(np.abs(ov)))}
    return v.result(decided=True, nontrivial=bool(np.max(np.abs(ov)) > 1e-9 * sc_nat), sample=sample)


def kf_complex_gain_function_signal(case, viol):
    """A function-backed signal scaled by a complex gain keeps only the real part of the gain (its values array is real), a sampled
    signal keeps the complex product: measured per case (gain complex, returned values == Re(gain x filtered signal))."""
    d = viol["detail"]
    return (viol["clause"].startswith("a function-backed signal gets the response of the sampled signal") and d.get("gain_is_complex") is True
            and d.get("equals_real_part_of_gain_times_signal") is True)
