"""pytest plugin: run the repository's own tests with the checks' runtime contracts switched on.

    VT_CONTRACT_CHECKS=c04,c09  VT_CONTRACT_OUT=/path/out.json  pytest -p vt.pytest_contracts tests/test_signals.py

The repository's tests become one more workload for the contracts (icontract post-conditions / class invariants that the check
modules attach to the real classes).  Every contract failure is recorded here at the moment the error object is created, so a
test that swallows the exception (pytest.raises(Exception), try/except) cannot hide it.
"""
import importlib
import json
import os

_MODS, _FIRED = [], []


def pytest_configure(config):
    for name in [m for m in os.environ.get("VT_CONTRACT_CHECKS", "").split(",") if m]:
        mod = importlib.import_module("vt.checks." + name.lower())
        for cname in ("PostBroken", "InvariantBroken"):
            cls = getattr(mod, cname, None)
            if cls is not None and not getattr(cls, "_vt_recording", False):
                def __init__(self, *a, _n=name, **k):
                    AssertionError.__init__(self, *a)
                    _FIRED.append({"check": _n, "test": os.environ.get("PYTEST_CURRENT_TEST", ""), "message": " ".join(str(x) for x in a)[:400]})
                cls.__init__ = __init__
                cls._vt_recording = True
        mod.setup()
        _MODS.append((name, mod))


def pytest_sessionfinish(session, exitstatus):
    out = os.environ.get("VT_CONTRACT_OUT")
    if not out:
        return
    rep = {"exitstatus": int(exitstatus), "collected": int(getattr(session, "testscollected", 0)), "failed": int(getattr(session, "testsfailed", 0)),
           "contract_evaluations": {n: dict(getattr(m, "_STATE", {})) for n, m in _MODS}, "contract_failures": _FIRED}
    with open(out, "w") as f:
        json.dump(rep, f)
