"""Reference Earth density tables, typed independently from the literature (not imported from pyrex).

PREM: Dziewonski & Anderson 1981, Table I (density polynomials in x = r / 6371 km).
Core-mantle-crust: the three-shell model used by AraSim (core 14, mantle 3.4, 40 km crust 2.9 g/cm^3).
Shells are half-open [lower, upper); density is 0 at and beyond the surface radius and for r < 0.
"""
import numpy as np
from scipy import integrate

PREM_R = 6.3710e6
PREM_SHELLS = [
    (0.0, 1.2215e6, lambda x: 13.0885 - 8.8381 * x**2),
    (1.2215e6, 3.4800e6, lambda x: 12.5815 - 1.2638 * x - 3.6426 * x**2 - 5.5281 * x**3),
    (3.4800e6, 5.7010e6, lambda x: 7.9565 - 6.4761 * x + 5.5283 * x**2 - 3.0807 * x**3),
    (5.7010e6, 5.7710e6, lambda x: 5.3197 - 1.4836 * x),
    (5.7710e6, 5.9710e6, lambda x: 11.2494 - 8.0298 * x),
    (5.9710e6, 6.1510e6, lambda x: 7.1089 - 3.8045 * x),
    (6.1510e6, 6.3466e6, lambda x: 2.691 + 0.6924 * x),
    (6.3466e6, 6.3560e6, lambda x: 2.9),
    (6.3560e6, 6.3680e6, lambda x: 2.6),
    (6.3680e6, 6.3710e6, lambda x: 1.02),
]
CMC_R = 6.378140e6
CMC_SHELLS = [
    (0.0, float(np.sqrt(1.2e13)), lambda x: 14.0),
    (float(np.sqrt(1.2e13)), CMC_R - 4e4, lambda x: 3.4),
    (CMC_R - 4e4, CMC_R, lambda x: 2.9),
]
MODELS = {"PREM": (PREM_SHELLS, PREM_R), "CoreMantleCrustModel": (CMC_SHELLS, CMC_R)}


def density(r, shells, R):
    for lo, hi, f in shells:
        if lo <= r < hi:
            return float(f(r / R))
    return 0.0


def chord(shells, R, endpoint, direction):
    """Exact column depth (g/cm^2) from `endpoint` along `direction` to the exit from the Earth.

    Returns (column, chord_length, [density jumps crossed]); quad is split at every shell crossing.
    """
    e = np.array([endpoint[0], endpoint[1], endpoint[2] + R], float)
    d = np.array(direction, float)
    d = d / np.linalg.norm(d)
    b = float(np.dot(e, d))
    ee = float(np.dot(e, e))
    disc = b * b - ee + R * R
    if disc <= 0:
        return 0.0, 0.0, []
    L = -b + np.sqrt(disc)
    if L <= 0:
        return 0.0, 0.0, []
    pts, jumps = [0.0, L], []
    for lo, rad, f in shells:
        dd = b * b - ee + rad * rad
        if dd > 0:
            for sgn in (-1, 1):
                t = -b + sgn * np.sqrt(dd)
                if 0 < t <= L + 1e-9:
                    jumps.append(abs(density(rad * (1 + 1e-12), shells, R) - density(rad * (1 - 1e-12), shells, R)))
                    if t < L:
                        pts.append(t)
    pts = sorted(pts)
    tot = 0.0
    for a_, b_ in zip(pts[:-1], pts[1:]):
        tot += integrate.quad(lambda t: density(np.sqrt(max(ee + 2 * t * b + t * t, 0.0)), shells, R),
                              a_, b_, epsrel=1e-10, limit=200)[0]
    return 100 * tot, float(L), jumps
