"""Independent ray oracle for exponential-profile ice n(z) = n0 - k exp(a z).

Arc-length form of the ray equation d(n u)/ds = grad n with state (rho, z, p_z = n cos(theta), T) and
p_rho = n sin(theta) conserved; integrated with scipy DOP853 from the source in the *reported* emitted direction
for exactly the *reported* path length, with specular reflection at the top of the ice.  This form has no
turning-point singularity and shares nothing with pyrex's closed-form z-integrals or its z-trapezoid.
"""
import numpy as np
from scipy.integrate import solve_ivp, quad
from scipy.optimize import brentq

C = 299792458.0


def profile(n0, k, a):
    return (lambda z: n0 - k * np.exp(a * z)), (lambda z: -k * a * np.exp(a * z))


def trace_with_integrals(n, dn, ztop, src_z, emitted, L, extra, n_extra, rtol=1e-10):
    """Like trace_to_length, additionally integrating `extra(z)` (array of n_extra integrands per unit arc length)
    along the ray.  Returns (rho, z, T, dir_rho, dir_z, n_reflections, n_turns, integrals, [z at reflections])."""
    sin0 = float(np.hypot(emitted[0], emitted[1]))
    cos0 = float(emitted[2])
    pr = n(src_z) * sin0
    pz = n(src_z) * cos0

    def rhs(s, y):
        z = y[1]
        nn = n(z)
        return np.concatenate(([pr / nn, y[2] / nn, dn(z), nn / C], extra(z)))

    def hit_top(s, y):
        return y[1] - ztop
    hit_top.terminal = True
    hit_top.direction = 1

    def turn(s, y):
        return y[2]
    turn.terminal = True
    turn.direction = -1
    state = np.concatenate(([0.0, src_z, pz, 0.0], np.zeros(n_extra)))
    s_done, nrefl, nturn = 0.0, 0, 0
    for leg in range(60):
        rem = L - s_done
        if rem <= 0:
            break
        sol = solve_ivp(rhs, [0, rem], state, events=[hit_top, turn], rtol=rtol, atol=1e-12, method="DOP853", max_step=max(L / 200, 1e-3))
        y = sol.y[:, -1].copy()
        if sol.status == 1 and len(sol.t_events[0]) > 0:
            s_done += sol.t[-1]
            nrefl += 1
            y[1], y[2] = ztop, -abs(y[2])
            state = y
            continue
        if sol.status == 1 and len(sol.t_events[1]) > 0:
            nturn += 1
            s_done += sol.t[-1]
            y[2] = min(y[2], 0.0)
            h = min(1e-6, (L - s_done) / 2) if L - s_done > 0 else 0
            if h > 0:
                y = y + h * rhs(0, y)
                s_done += h
            state = y
            continue
        s_done = L
        state = y
        break
    nn = n(state[1])
    return float(state[0]), float(state[1]), float(state[3]), float(pr / nn), float(state[2] / nn), nrefl, nturn, np.array(state[4:], float)


def trace_to_length(n, dn, ztop, src_z, emitted, L, rtol=1e-11):
    """Returns rho, z, T, dir_rho, dir_z, n_reflections, n_turns at arc length L."""
    sin0 = float(np.hypot(emitted[0], emitted[1]))
    cos0 = float(emitted[2])
    pr = n(src_z) * sin0
    pz = n(src_z) * cos0

    def rhs(s, y):
        r, z, pz_, T = y
        nn = n(z)
        return [pr / nn, pz_ / nn, dn(z), nn / C]

    def hit_top(s, y):
        return y[1] - ztop
    hit_top.terminal = True
    hit_top.direction = 1

    def turn(s, y):
        return y[2]
    turn.terminal = True
    turn.direction = -1
    state = [0.0, src_z, pz, 0.0]
    s_done, nrefl, nturn = 0.0, 0, 0
    for leg in range(60):
        rem = L - s_done
        if rem <= 0:
            break
        sol = solve_ivp(rhs, [0, rem], state, events=[hit_top, turn], rtol=rtol, atol=1e-10, method="DOP853",
                        max_step=max(L / 100, 1e-3), dense_output=True)
        y = sol.y[:, -1]
        if sol.status == 1 and len(sol.t_events[0]) > 0:
            s_done += sol.t[-1]
            nrefl += 1
            state = [y[0], ztop, -abs(y[2]), y[3]]
            continue
        if sol.status == 1 and len(sol.t_events[1]) > 0:
            st = sol.t[-1]
            if y[1] > ztop:
                # turned above the surface: a grazing reflection was stepped over; find the first crossing
                ss = np.linspace(0, st, 2001)
                zz = sol.sol(ss)[1] - ztop
                idx = np.where((zz[:-1] <= 0) & (zz[1:] > 0))[0]
                sc = brentq(lambda s: sol.sol(s)[1] - ztop, ss[idx[0]], ss[idx[0] + 1], xtol=1e-12)
                yc = sol.sol(sc)
                s_done += sc
                nrefl += 1
                state = [yc[0], ztop, -abs(yc[2]), yc[3]]
                continue
            nturn += 1
            s_done += st
            state = [y[0], y[1], min(y[2], 0.0), y[3]]
            h = min(1e-6, (L - s_done) / 2) if L - s_done > 0 else 0
            if h > 0:        # leave the event surface with one tiny explicit step
                kk = rhs(0, state)
                state = [state[i] + h * kk[i] for i in range(4)]
                s_done += h
            continue
        s_done = L
        state = list(y)
        break
    r, z, pz_, T = state
    nn = n(z)
    return float(r), float(z), float(T), float(pr / nn), float(pz_ / nn), nrefl, nturn


def max_direct_range(n, z_lo, z_hi):
    """Largest horizontal distance a non-turning ray can cover between depths z_lo < z_hi: the ray that grazes z_hi."""
    if z_hi <= z_lo:
        return 0.0
    beta = n(z_hi)
    f = lambda z: beta / np.sqrt(max(n(z) ** 2 - beta ** 2, 1e-300))
    val, err = quad(f, z_lo, z_hi, limit=400, epsabs=0, epsrel=1e-9, points=None)
    return float(val)
